(* C09ring - proofs: the ring buffer and the MPSC list refine FIFO lists. *)
From Cell2V Require Import Common.Tac Common.ListX C09ring.Model C09ring.Spec.

(* ================================================================== arithmetic *)
Lemma mod_wrap a m : 0 < m -> 0 <= a < 2 * m -> a mod m = if a <? m then a else a - m.
Proof.
  intros Hm Ha. destruct (Z.ltb_spec a m) as [L|L].
  - apply Z.mod_small. lia.
  - symmetry. apply Z.mod_unique_pos with (q := 1); lia.
Qed.

Lemma slotpos_range h m i : 0 < m -> 0 <= slotpos h m i < m.
Proof. intro Hm. unfold slotpos. apply Z.mod_pos_bound. exact Hm. Qed.

Lemma slotpos_val h m i : 0 < m -> 0 <= h < m -> 0 <= i < m ->
  slotpos h m i = if h + 1 + i <? m then h + 1 + i else h + 1 + i - m.
Proof. intros Hm Hh Hi. unfold slotpos. apply mod_wrap; lia. Qed.

Lemma slotpos_inj h m i j : 0 < m -> 0 <= h < m -> 0 <= i < m -> 0 <= j < m ->
  slotpos h m i = slotpos h m j -> i = j.
Proof.
  intros Hm Hh Hi Hj. rewrite !slotpos_val by assumption.
  destruct (Z.ltb_spec (h + 1 + i) m), (Z.ltb_spec (h + 1 + j) m); lia.
Qed.

Lemma slotpos_shift h m k i : slotpos ((h + k) mod m) m i = slotpos h m (k + i).
Proof.
  unfold slotpos. replace ((h + k) mod m + 1 + i) with ((h + k) mod m + (1 + i)) by ring.
  rewrite Zplus_mod_idemp_l. f_equal. ring.
Qed.

Lemma slotpos_period h m i : slotpos h m (i + m) = slotpos h m i.
Proof.
  unfold slotpos. replace (h + 1 + (i + m)) with (h + 1 + i + 1 * m) by ring.
  apply Z_mod_plus_full.
Qed.

Lemma slotpos_last h m : 0 < m -> 0 <= h < m -> slotpos h m (m - 1) = h.
Proof.
  intros Hm Hh. rewrite slotpos_val by lia.
  destruct (Z.ltb_spec (h + 1 + (m - 1)) m); lia.
Qed.

Lemma tail_succ h m n : ((h + n) mod m + 1) mod m = slotpos h m n.
Proof. unfold slotpos. rewrite Zplus_mod_idemp_l. f_equal. ring. Qed.

(* ================================================================== buffers *)
Lemma nth_error_upd {A} (b : list A) : forall n k v, (n < length b)%nat ->
  nth_error (firstn n b ++ v :: skipn (S n) b) k = if Nat.eqb k n then Some v else nth_error b k.
Proof.
  induction b as [|a b IH]; intros [|n] [|k] v H; simpl in *; try lia; auto.
  apply IH. lia.
Qed.

Lemma bset_length b i v : 0 <= i < Z.of_nat (length b) -> length (bset b i v) = length b.
Proof.
  intro H. unfold bset. rewrite app_length. cbn [length]. rewrite firstn_length, skipn_length. lia.
Qed.

Lemma bget_bset_same b i v : 0 <= i < Z.of_nat (length b) -> bget (bset b i v) i = v.
Proof.
  intro H. unfold bget, bset. rewrite nth_error_upd by lia. rewrite Nat.eqb_refl. reflexivity.
Qed.

Lemma bget_bset_other b i j v : 0 <= i < Z.of_nat (length b) -> 0 <= j -> i <> j ->
  bget (bset b i v) j = bget b j.
Proof.
  intros H Hj N. unfold bget, bset. rewrite nth_error_upd by lia.
  destruct (Nat.eqb_spec (Z.to_nat j) (Z.to_nat i)) as [E|E]; [lia | reflexivity].
Qed.

Lemma nth_error_repeat_none (n k : nat) :
  match nth_error (repeat (@None Z) n) k with Some v => v | None => None end = None.
Proof.
  revert k. induction n as [|n IH]; intros [|k]; simpl; auto.
Qed.

Lemma bget_repeat n i : bget (repeat None n) i = None.
Proof. unfold bget. apply nth_error_repeat_none. Qed.

Lemma bget_inb b i : inb b i = false -> 0 <= i -> bget b i = None.
Proof.
  unfold inb, bget. intros H Hi.
  destruct (nth_error b (Z.to_nat i)) eqn:E; [|reflexivity].
  assert (Z.to_nat i < length b)%nat by (apply nth_error_Some; congruence). lia.
Qed.

(* lists as tables *)
Lemma nth_error_seq_map {A} (f : nat -> A) n : forall s i, (i < n)%nat ->
  nth_error (map f (seq s n)) i = Some (f (s + i)%nat).
Proof.
  induction n as [|n IH]; intros s [|i] H; simpl; try lia.
  - f_equal. f_equal. lia.
  - rewrite IH by lia. f_equal. f_equal. lia.
Qed.

Lemma nth_error_seq_map_none {A} (f : nat -> A) n s i : (n <= i)%nat ->
  nth_error (map f (seq s n)) i = None.
Proof. intro H. apply nth_error_None. rewrite map_length, seq_length. exact H. Qed.

Lemma map_nth_error_firstn {A} : forall n (l : list A), (n <= length l)%nat ->
  map (fun j => nth_error l j) (seq 0 n) = map Some (firstn n l).
Proof.
  induction n as [|n IH]; intros l H; [reflexivity|].
  destruct l as [|a l]; simpl in H; [lia|].
  cbn [seq map firstn]. f_equal. rewrite <- seq_shift, map_map. cbn [nth_error].
  apply IH. lia.
Qed.

Lemma tabulate_unwrap : forall l : list Z,
  map (fun j => unwrap (nth_error l j)) (seq 0 (length l)) = l.
Proof.
  induction l as [|a l IH]; [reflexivity|].
  cbn [length seq map]. cbn [nth_error unwrap]. f_equal.
  rewrite <- seq_shift, map_map. cbn [nth_error]. exact IH.
Qed.

Lemma nth_error_skipn {A} : forall n (l : list A) i,
  nth_error (skipn n l) i = nth_error l (n + i).
Proof.
  induction n as [|n IH]; intros l i; [reflexivity|].
  destruct l as [|a l]; [destruct i; reflexivity|]. cbn [skipn Nat.add nth_error]. apply IH.
Qed.

Lemma nth_Z_app1 {A} (l : list A) x i : 0 <= i < Z.of_nat (length l) ->
  nth_error (l ++ [x]) (Z.to_nat i) = nth_error l (Z.to_nat i).
Proof. intro H. apply nth_error_app1. lia. Qed.

Lemma nth_Z_app_last {A} (l : list A) x i : i = Z.of_nat (length l) ->
  nth_error (l ++ [x]) (Z.to_nat i) = Some x.
Proof.
  intro H. rewrite nth_error_app2 by lia.
  replace (Z.to_nat i - length l)%nat with 0%nat by lia. reflexivity.
Qed.

Lemma nth_Z_beyond {A} (l : list A) i : Z.of_nat (length l) <= i -> nth_error l (Z.to_nat i) = None.
Proof. intro H. apply nth_error_None. lia. Qed.

(* ================================================================== loops *)
Lemma copy_loop_spec old t m : forall fuel nb i,
  0 <= i -> i + Z.of_nat fuel <= Z.of_nat (length nb) ->
  length (copy_loop old t m nb i fuel) = length nb /\
  forall q, 0 <= q ->
    bget (copy_loop old t m nb i fuel) q =
    if (i <=? q) && (q <? i + Z.of_nat fuel) then bget old ((t + q) mod m) else bget nb q.
Proof.
  induction fuel as [|f IH]; intros nb i Hi Hlen.
  - split; [reflexivity|]. intros q Hq. cbn [copy_loop].
    destruct (Z.leb_spec i q), (Z.ltb_spec q (i + Z.of_nat 0)); simpl; try reflexivity; lia.
  - cbn [copy_loop].
    assert (Hb : 0 <= i < Z.of_nat (length nb)) by lia.
    destruct (IH (bset nb i (bget old ((t + i) mod m))) (i + 1)) as [L SP]; [lia | rewrite bset_length; lia |].
    split; [rewrite L; apply bset_length; exact Hb|].
    intros q Hq. rewrite SP by exact Hq.
    destruct (Z.eq_dec q i) as [E|E].
    + subst q. rewrite bget_bset_same by exact Hb.
      destruct (Z.leb_spec (i + 1) i), (Z.leb_spec i i), (Z.ltb_spec i (i + Z.of_nat (S f)));
        simpl; try reflexivity; lia.
    + rewrite bget_bset_other by (try exact Hb; try exact Hq; congruence).
      destruct (Z.leb_spec (i + 1) q), (Z.ltb_spec q (i + 1 + Z.of_nat f)),
               (Z.leb_spec i q), (Z.ltb_spec q (i + Z.of_nat (S f))); simpl; try reflexivity; lia.
Qed.

Lemma grow_buffer_spec old t m : 0 < m ->
  length (grow_buffer old t m (m * 2)) = Z.to_nat (m * 2) /\
  forall q, 0 <= q ->
    bget (grow_buffer old t m (m * 2)) q = if q <? m then bget old ((t + q) mod m) else None.
Proof.
  intro Hm. unfold grow_buffer.
  destruct (copy_loop_spec old t m (Z.to_nat m) (repeat None (Z.to_nat (m * 2))) 0) as [L SP].
  - lia.
  - rewrite repeat_length. lia.
  - split; [rewrite L; apply repeat_length|].
    intros q Hq. rewrite SP by exact Hq. rewrite bget_repeat.
    destruct (Z.leb_spec 0 q), (Z.ltb_spec q (0 + Z.of_nat (Z.to_nat m))), (Z.ltb_spec q m);
      simpl; try reflexivity; lia.
Qed.

Lemma popmany_loop_spec h m : 0 < m -> 0 <= h < m -> forall fuel b i,
  Z.of_nat (length b) = m -> 0 <= i -> i + Z.of_nat fuel <= m ->
  length (fst (popmany_loop b h m i fuel)) = length b /\
  snd (popmany_loop b h m i fuel) =
    map (fun j => bget b (slotpos h m (i + Z.of_nat j))) (seq 0 fuel) /\
  forall q, 0 <= q < m ->
    bget (fst (popmany_loop b h m i fuel)) (slotpos h m q) =
    if (i <=? q) && (q <? i + Z.of_nat fuel) then None else bget b (slotpos h m q).
Proof.
  intros Hm Hh. induction fuel as [|f IH]; intros b i Hlen Hi Hle.
  - cbn [popmany_loop fst snd seq map]. repeat split.
    intros q Hq. destruct (Z.leb_spec i q), (Z.ltb_spec q (i + Z.of_nat 0)); simpl; try reflexivity; lia.
  - cbn [popmany_loop]. fold (slotpos h m i).
    pose proof (slotpos_range h m i Hm) as Hr.
    assert (Hb : 0 <= slotpos h m i < Z.of_nat (length b)) by lia.
    destruct (IH (bset b (slotpos h m i) None) (i + 1)) as (L & O & SP);
      [rewrite bset_length; lia | lia | lia |].
    destruct (popmany_loop (bset b (slotpos h m i) None) h m (i + 1) f) as [b' out] eqn:E.
    cbn [fst snd] in *. repeat split.
    + rewrite L. apply bset_length. exact Hb.
    + cbn [seq map]. f_equal; [f_equal; f_equal; lia|].
      rewrite O, <- seq_shift, map_map. apply map_ext_in. intros j Hj.
      apply in_seq in Hj.
      replace (i + 1 + Z.of_nat j) with (i + Z.of_nat (S j)) by lia.
      apply bget_bset_other; [exact Hb | apply slotpos_range; exact Hm |].
      intro X. apply slotpos_inj in X; lia.
    + intros q Hq. rewrite SP by exact Hq.
      destruct (Z.eq_dec q i) as [Eq|Eq].
      * subst q. rewrite bget_bset_same by exact Hb.
        destruct (Z.leb_spec (i + 1) i), (Z.leb_spec i i), (Z.ltb_spec i (i + Z.of_nat (S f))),
                 (Z.ltb_spec i (i + 1 + Z.of_nat f)); simpl; try reflexivity; lia.
      * rewrite bget_bset_other;
          [| exact Hb | apply slotpos_range; exact Hm | intro X; apply slotpos_inj in X; lia].
        destruct (Z.leb_spec (i + 1) q), (Z.ltb_spec q (i + 1 + Z.of_nat f)),
                 (Z.leb_spec i q), (Z.ltb_spec q (i + Z.of_nat (S f))); simpl; try reflexivity; lia.
Qed.

(* ================================================================== representation *)
Definition rep (r : ring) (l : list Z) : Prop :=
  0 < r_mod r /\
  r_mod r = Z.of_nat (length (r_buf r)) /\
  0 <= r_head r < r_mod r /\
  r_len r = Z.of_nat (length l) /\
  r_len r < r_mod r /\
  r_tail r = (r_head r + r_len r) mod r_mod r /\
  forall i, 0 <= i < r_mod r ->
    bget (r_buf r) (slotpos (r_head r) (r_mod r) i) = nth_error l (Z.to_nat i).

Lemma rep_intro r l :
  0 < r_mod r ->
  r_mod r = Z.of_nat (length (r_buf r)) ->
  0 <= r_head r < r_mod r ->
  r_len r = Z.of_nat (length l) ->
  r_len r < r_mod r ->
  r_tail r = (r_head r + r_len r) mod r_mod r ->
  (forall i, 0 <= i < r_mod r ->
     bget (r_buf r) (slotpos (r_head r) (r_mod r) i) = nth_error l (Z.to_nat i)) ->
  rep r l.
Proof. unfold rep. tauto. Qed.

Ltac rep_goal := apply rep_intro; cbn [r_buf r_head r_tail r_mod r_len].

Lemma rep_live r l : rep r l -> live r = r_len r.
Proof.
  intros (Hm & _ & Hh & Hn & Hlt & Ht & _). unfold live. rewrite Ht.
  rewrite Zminus_mod_idemp_l. replace (r_head r + r_len r - r_head r) with (r_len r) by ring.
  apply Z.mod_small. lia.
Qed.

Lemma rep_abs r l : rep r l -> abs r = l.
Proof.
  intro R. pose proof (rep_live r l R) as HL.
  destruct R as (Hm & _ & Hh & Hn & Hlt & Ht & Hs).
  unfold abs. rewrite HL, Hn, Nat2Z.id.
  rewrite <- (tabulate_unwrap l) at 2. apply map_ext_in. intros j Hj. apply in_seq in Hj.
  rewrite Hs by lia. rewrite Nat2Z.id. reflexivity.
Qed.

Lemma rep_wf r l : rep r l -> wf r.
Proof.
  intro R. pose proof (rep_live r l R) as HL.
  destruct R as (Hm & Hb & Hh & Hn & Hlt & Ht & Hs).
  assert (Htr : 0 <= r_tail r < r_mod r) by (rewrite Ht; apply Z.mod_pos_bound; exact Hm).
  unfold wf. split; [exact Hm|]. split; [exact Hb|]. split; [exact Hh|]. split; [exact Htr|].
  split; [lia|]. split.
  - intros i Hi. rewrite Hs by lia.
    destruct (nth_error l (Z.to_nat i)) as [x|] eqn:E; [eauto|].
    apply nth_error_None in E. lia.
  - intros i Hi. rewrite Hs by lia. apply nth_Z_beyond. lia.
Qed.

Lemma wf_rep r : wf r -> rep r (abs r).
Proof.
  intros (Hm & Hb & Hh & Ht & Hn & Hlive & Hdead).
  assert (Hlt : 0 <= r_len r < r_mod r) by (rewrite Hn; apply Z.mod_pos_bound; exact Hm).
  assert (Hlen : length (abs r) = Z.to_nat (r_len r))
    by (unfold abs; rewrite map_length, seq_length, Hn; reflexivity).
  rep_goal; [exact Hm | exact Hb | exact Hh | lia | lia | |].
  - rewrite Hn. unfold live. rewrite Zplus_mod_idemp_r.
    replace (r_head r + (r_tail r - r_head r)) with (r_tail r) by ring.
    symmetry. apply Z.mod_small. exact Ht.
  - intros i Hi. destruct (Z.ltb_spec i (r_len r)) as [L|L].
    + unfold abs. rewrite nth_error_seq_map by lia.
      rewrite Nat.add_0_l, Z2Nat.id by lia.
      destruct (Hlive i) as [x Hx]; [lia|]. rewrite Hx. reflexivity.
    + rewrite Hdead by lia. symmetry. apply nth_error_None. lia.
Qed.

Lemma rep_new n : 1 <= n -> rep (new n) [].
Proof.
  intro H. unfold new. rep_goal; cbn [length]; [lia | rewrite repeat_length; lia | lia | lia | lia | |].
  - rewrite Z.mod_small; lia.
  - intros i Hi. rewrite bget_repeat. destruct (Z.to_nat i); reflexivity.
Qed.

(* ------------------------------------------------------------------ push *)
Lemma full_iff h m n : 0 < m -> 0 <= h < m -> 0 <= n < m -> (slotpos h m n = h <-> n = m - 1).
Proof.
  intros Hm Hh Hn. rewrite slotpos_val by lia.
  destruct (Z.ltb_spec (h + 1 + n) m); lia.
Qed.

Lemma rep_push r l x : rep r l -> rep (push r x) (l ++ [x]).
Proof.
  destruct r as [b h t m n]. unfold rep at 1. cbn [r_buf r_head r_tail r_mod r_len].
  intros (Hm & Hb & Hh & Hn & Hlt & Ht & Hs).
  assert (Hn0 : 0 <= n < m) by lia.
  unfold push. cbn [r_buf r_head r_tail r_mod r_len].
  rewrite Ht, tail_succ.
  pose proof (slotpos_range h m n Hm) as Hr.
  destruct (Z.eqb_spec (slotpos h m n) h) as [E|E].
  - (* full: resize *)
    assert (En : n = m - 1) by (apply (full_iff h m n); assumption).
    destruct (grow_buffer_spec b (slotpos h m n) m Hm) as [GL GS].
    assert (Hnb : 0 <= m < Z.of_nat (length (grow_buffer b (slotpos h m n) m (m * 2))))
      by (rewrite GL; lia).
    rep_goal; rewrite ?app_length; cbn [length]; [lia | | lia | lia | lia | |].
    + rewrite bset_length by exact Hnb. rewrite GL. lia.
    + rewrite Z.mod_small; lia.
    + intros i Hi. rewrite (slotpos_val 0 (m * 2) i) by lia.
      destruct (Z.ltb_spec (0 + 1 + i) (m * 2)) as [L|L].
      * destruct (Z.eq_dec (0 + 1 + i) m) as [Em|Em].
        -- rewrite Em, bget_bset_same by exact Hnb. symmetry. apply nth_Z_app_last. lia.
        -- rewrite bget_bset_other by (try exact Hnb; lia). rewrite GS by lia.
           destruct (Z.ltb_spec (0 + 1 + i) m) as [L2|L2].
           ++ rewrite E. replace ((h + (0 + 1 + i)) mod m) with (slotpos h m i)
                by (unfold slotpos; f_equal; ring).
              rewrite Hs by lia. symmetry. apply nth_Z_app1. lia.
           ++ symmetry. apply nth_Z_beyond. rewrite app_length. cbn [length]. lia.
      * rewrite bget_bset_other by (try exact Hnb; lia). rewrite GS by lia.
        destruct (Z.ltb_spec (0 + 1 + i - m * 2) m) as [L2|L2]; [|lia].
        replace (0 + 1 + i - m * 2) with 0 by lia. rewrite E, Z.add_0_r, Z.mod_small by lia.
        rewrite <- (slotpos_last h m) at 1 by lia. rewrite Hs by lia.
        rewrite nth_Z_beyond by lia. symmetry. apply nth_Z_beyond.
        rewrite app_length. cbn [length]. lia.
  - (* room left *)
    assert (Nn : n <> m - 1) by (intro X; apply E; apply (full_iff h m n); assumption).
    assert (Hp : 0 <= slotpos h m n < Z.of_nat (length b)) by lia.
    rep_goal; rewrite ?app_length; cbn [length]; [lia | | lia | lia | lia | |].
    + rewrite bset_length by exact Hp. exact Hb.
    + unfold slotpos. f_equal. ring.
    + intros i Hi. destruct (Z.eq_dec i n) as [Ei|Ei].
      * subst i. rewrite bget_bset_same by exact Hp. symmetry. apply nth_Z_app_last. lia.
      * rewrite bget_bset_other;
          [| exact Hp | apply slotpos_range; exact Hm | intro X; apply slotpos_inj in X; lia].
        rewrite Hs by lia. destruct (Z.ltb_spec i n) as [L|L].
        -- symmetry. apply nth_Z_app1. lia.
        -- rewrite nth_Z_beyond by lia. symmetry. apply nth_Z_beyond.
           rewrite app_length. cbn [length]. lia.
Qed.

(* ------------------------------------------------------------------ pop *)
Lemma rep_pop_nil r : rep r [] -> pop r = (r, (None, false)).
Proof.
  intros (_ & _ & _ & Hn & _). unfold pop. cbn [length] in Hn. rewrite Hn. reflexivity.
Qed.

Lemma rep_pop_cons r x l : rep r (x :: l) ->
  exists r', pop r = (r', (Some x, true)) /\ rep r' l.
Proof.
  destruct r as [b h t m n]. unfold rep at 1. cbn [r_buf r_head r_tail r_mod r_len length].
  intros (Hm & Hb & Hh & Hn & Hlt & Ht & Hs).
  unfold pop, pop_locked. cbn [r_buf r_head r_tail r_mod r_len].
  destruct (Z.eqb_spec n 0) as [Z0|Z0]; [lia|].
  replace ((h + 1) mod m) with (slotpos h m 0) by (unfold slotpos; f_equal; ring).
  pose proof (slotpos_range h m 0 Hm) as Hr.
  assert (Hp : 0 <= slotpos h m 0 < Z.of_nat (length b)) by lia.
  eexists. split.
  - rewrite (Hs 0) by lia. reflexivity.
  - rep_goal; [lia | | lia | lia | lia | |].
    + rewrite bset_length by exact Hp. exact Hb.
    + rewrite Ht. unfold slotpos. rewrite Zplus_mod_idemp_l. f_equal. ring.
    + intros i Hi.
      assert (Esh : slotpos (slotpos h m 0) m i = slotpos h m (1 + i)).
      { change (slotpos h m 0) with ((h + 1 + 0) mod m).
        replace (h + 1 + 0) with (h + 1) by ring. apply slotpos_shift. }
      rewrite Esh.
      destruct (Z.eq_dec (1 + i) m) as [E|E].
      * replace (1 + i) with (0 + m) by lia. rewrite slotpos_period.
        rewrite bget_bset_same by exact Hp. symmetry. apply nth_Z_beyond. lia.
      * rewrite bget_bset_other;
          [| exact Hp | apply slotpos_range; exact Hm | intro X; apply slotpos_inj in X; lia].
        rewrite Hs by lia. replace (Z.to_nat (1 + i)) with (S (Z.to_nat i)) by lia. reflexivity.
Qed.

(* ------------------------------------------------------------------ PopMany *)
Lemma rep_popmany_nil r k : rep r [] -> pop_many r k = (r, ([], false)).
Proof.
  intros (_ & _ & _ & Hn & _). unfold pop_many. cbn [length] in Hn. rewrite Hn. reflexivity.
Qed.

Lemma rep_popmany r l k : rep r l -> l <> [] -> 0 <= k ->
  exists r', pop_many r k = (r', (map Some (firstn (Z.to_nat k) l), true)) /\
             rep r' (skipn (Z.to_nat k) l).
Proof.
  destruct r as [b h t m n]. unfold rep at 1. cbn [r_buf r_head r_tail r_mod r_len].
  intros (Hm & Hb & Hh & Hn & Hlt & Ht & Hs) Hne Hk.
  assert (Hpos : 0 < n) by (destruct l; [congruence | cbn [length] in Hn; lia]).
  unfold pop_many, popmany_locked. cbn [r_buf r_head r_tail r_mod r_len].
  destruct (Z.eqb_spec n 0) as [Z0|Z0]; [lia|].
  set (c := if k >=? n then n else k).
  assert (Hc : 0 <= c <= n /\ (k >= n -> c = n) /\ (k < n -> c = k))
    by (unfold c; destruct (Z.geb_spec k n); lia).
  destruct (popmany_loop_spec h m Hm Hh (Z.to_nat c) b 0) as (L & O & SP); [lia | lia | lia |].
  destruct (popmany_loop b h m 0 (Z.to_nat c)) as [b' out] eqn:E.
  cbn [fst snd] in *.
  assert (Hfirst : firstn (Z.to_nat k) l = firstn (Z.to_nat c) l).
  { destruct (Z_lt_ge_dec k n) as [A|A].
    - replace c with k by lia. reflexivity.
    - replace c with n by lia. rewrite !firstn_all2 by lia. reflexivity. }
  assert (Hskip : skipn (Z.to_nat k) l = skipn (Z.to_nat c) l).
  { destruct (Z_lt_ge_dec k n) as [A|A].
    - replace c with k by lia. reflexivity.
    - replace c with n by lia. rewrite !skipn_all2 by lia. reflexivity. }
  eexists. split.
  - f_equal. f_equal. rewrite O, Hfirst. rewrite <- map_nth_error_firstn by lia.
    apply map_ext_in. intros j Hj. apply in_seq in Hj.
    rewrite Hs by lia. f_equal. lia.
  - rewrite Hskip. rep_goal; [lia | lia | | | lia | |].
    + apply Z.mod_pos_bound. exact Hm.
    + rewrite skipn_length. lia.
    + rewrite Ht, Zplus_mod_idemp_l. f_equal. ring.
    + intros i Hi. rewrite slotpos_shift.
      destruct (Z.ltb_spec (c + i) m) as [A|A].
      * rewrite SP by lia.
        destruct (Z.leb_spec 0 (c + i)), (Z.ltb_spec (c + i) (0 + Z.of_nat (Z.to_nat c)));
          simpl; try lia.
        rewrite Hs by lia. rewrite nth_error_skipn. f_equal. lia.
      * replace (c + i) with (c + i - m + m) by ring. rewrite slotpos_period.
        rewrite SP by lia.
        destruct (Z.leb_spec 0 (c + i - m)), (Z.ltb_spec (c + i - m) (0 + Z.of_nat (Z.to_nat c)));
          simpl; try lia.
        symmetry. apply nth_error_None. rewrite skipn_length. lia.
Qed.

(* ------------------------------------------------------------------ the refinement theorems *)
Lemma ring_new_refines n : 1 <= n -> wf (new n) /\ abs (new n) = [].
Proof.
  intro H. pose proof (rep_new n H) as R. split; [eapply rep_wf | apply rep_abs]; exact R.
Qed.

Lemma ring_push_refines r x : wf r -> abs (push r x) = abs r ++ [x] /\ wf (push r x).
Proof.
  intro W. pose proof (rep_push r (abs r) x (wf_rep r W)) as R.
  split; [apply rep_abs | eapply rep_wf]; exact R.
Qed.

Lemma ring_pop_refines r : wf r ->
  match abs r with
  | [] => pop r = (r, (None, false))
  | x :: t => exists r', pop r = (r', (Some x, true)) /\ abs r' = t /\ wf r'
  end.
Proof.
  intro W. pose proof (wf_rep r W) as R. destruct (abs r) as [|x t].
  - apply rep_pop_nil. exact R.
  - destruct (rep_pop_cons r x t R) as (r' & P & R'). exists r'.
    split; [exact P|]. split; [apply rep_abs | eapply rep_wf]; exact R'.
Qed.

Lemma ring_popmany_refines r k : wf r -> 0 <= k ->
  match abs r with
  | [] => pop_many r k = (r, ([], false))
  | _ => exists r', pop_many r k = (r', (map Some (firstn (Z.to_nat k) (abs r)), true)) /\
                    abs r' = skipn (Z.to_nat k) (abs r) /\ wf r'
  end.
Proof.
  intros W Hk. pose proof (wf_rep r W) as R. destruct (abs r) as [|x t] eqn:E.
  - apply rep_popmany_nil. exact R.
  - destruct (rep_popmany r (x :: t) k R) as (r' & P & R'); [discriminate | exact Hk |].
    exists r'. split; [exact P|]. split; [apply rep_abs | eapply rep_wf]; exact R'.
Qed.

Lemma ring_len_refines r : wf r -> r_len r = Z.of_nat (length (abs r)).
Proof. intro W. destruct (wf_rep r W) as (_ & _ & _ & Hn & _). exact Hn. Qed.

(* one step of any operation *)
Lemma ring_step_refines r o : wf r -> (forall k, o = QPopMany k -> 0 <= k) ->
  snd (ring_step r o) = snd (fifo_step (abs r) o) /\
  abs (fst (ring_step r o)) = fst (fifo_step (abs r) o) /\
  wf (fst (ring_step r o)).
Proof.
  intros W Hk. destruct o as [x| |k|]; cbn [ring_step fifo_step].
  - destruct (ring_push_refines r x W) as [A W']. cbn [fst snd]. auto.
  - pose proof (ring_pop_refines r W) as P. destruct (abs r) as [|x t] eqn:E.
    + rewrite P. cbn [fst snd]. auto.
    + destruct P as (r' & P & A & W'). rewrite P. cbn [fst snd]. auto.
  - pose proof (ring_popmany_refines r k W (Hk k eq_refl)) as P. destruct (abs r) as [|x t] eqn:E.
    + rewrite P. cbn [fst snd]. auto.
    + destruct P as (r' & P & A & W'). rewrite P. cbn [fst snd]. auto.
  - cbn [fst snd]. rewrite (ring_len_refines r W). auto.
Qed.

Lemma qrun_acc {S} (step : S -> qop -> S * qres) : forall ops s acc,
  fold_left (qrun_step step) ops (s, acc) =
  (fst (qrun step s ops), acc ++ snd (qrun step s ops)).
Proof.
  unfold qrun. induction ops as [|o ops IH]; intros s acc.
  - cbn [fold_left fst snd]. rewrite app_nil_r. reflexivity.
  - cbn [fold_left].
    assert (E : forall a, qrun_step step (s, a) o = (fst (step s o), a ++ [snd (step s o)]))
      by (intro a; unfold qrun_step; destruct (step s o); reflexivity).
    rewrite !E. rewrite (IH _ (acc ++ [snd (step s o)])), (IH _ ([] ++ [snd (step s o)])).
    cbn [fst snd app]. rewrite <- app_assoc. reflexivity.
Qed.

Lemma qrun_cons {S} (step : S -> qop -> S * qres) s o ops :
  qrun step s (o :: ops) =
  (fst (qrun step (fst (step s o)) ops), snd (step s o) :: snd (qrun step (fst (step s o)) ops)).
Proof.
  unfold qrun at 1. cbn [fold_left].
  assert (E : qrun_step step (s, []) o = (fst (step s o), [snd (step s o)]))
    by (unfold qrun_step; destruct (step s o); reflexivity).
  rewrite E, qrun_acc. reflexivity.
Qed.

Lemma ring_refines_fifo : forall ops r, wf r -> counts_ok ops ->
  snd (qrun ring_step r ops) = snd (qrun fifo_step (abs r) ops) /\
  abs (fst (qrun ring_step r ops)) = fst (qrun fifo_step (abs r) ops) /\
  wf (fst (qrun ring_step r ops)).
Proof.
  induction ops as [|o ops IH]; intros r W C.
  - cbn. auto.
  - rewrite !qrun_cons. cbn [fst snd].
    destruct (ring_step_refines r o W) as (A & B & W').
    { intros k ->. apply C. left. reflexivity. }
    destruct (IH (fst (ring_step r o)) W') as (A2 & B2 & W2).
    { intros k Hk. apply C. right. exact Hk. }
    rewrite B in A2, B2. rewrite A, A2. auto.
Qed.

Lemma ring_refines_fifo_new n ops : 1 <= n -> counts_ok ops ->
  snd (qrun ring_step (new n) ops) = snd (qrun fifo_step [] ops).
Proof.
  intros H C. destruct (ring_new_refines n H) as [W A].
  destruct (ring_refines_fifo ops (new n) W C) as (R & _). rewrite A in R. exact R.
Qed.

(* ------------------------------------------------------------------ no index panic *)
Lemma inb_true b i : 0 <= i < Z.of_nat (length b) -> inb b i = true.
Proof. intro H. unfold inb. lia. Qed.

Lemma ring_inbounds r o : wf r -> (forall k, o = QPopMany k -> 0 <= k) -> op_inbounds r o = true.
Proof.
  intros W Hk. pose proof (wf_rep r W) as R.
  destruct R as (Hm & Hb & Hh & Hn & Hlt & Ht & Hs).
  destruct o as [x| |k|]; cbn [op_inbounds]; [| | |reflexivity].
  - unfold push_inbounds. apply andb_true_iff. split; [lia|].
    destruct (Z.eqb_spec ((r_tail r + 1) mod r_mod r) (r_head r)) as [E|E].
    + apply andb_true_iff. split; [|lia]. apply forallb_forall. intros i Hi. apply in_seq in Hi.
      apply andb_true_iff. split; [|lia]. apply inb_true. rewrite <- Hb.
      apply Z.mod_pos_bound. exact Hm.
    + apply inb_true. rewrite <- Hb. apply Z.mod_pos_bound. exact Hm.
  - unfold pop_inbounds. destruct (Z.eqb_spec (r_len r) 0) as [E|E]; [reflexivity|].
    cbn [orb]. apply andb_true_iff. split; [lia|]. apply inb_true. rewrite <- Hb.
    apply Z.mod_pos_bound. exact Hm.
  - unfold popmany_inbounds. destruct (Z.eqb_spec (r_len r) 0) as [E|E]; [reflexivity|].
    cbn [orb]. specialize (Hk k eq_refl).
    apply andb_true_iff. split; [apply andb_true_iff; split|].
    + destruct (Z.geb_spec k (r_len r)); lia.
    + lia.
    + apply forallb_forall. intros i Hi. apply inb_true. rewrite <- Hb.
      apply Z.mod_pos_bound. exact Hm.
Qed.

(* ------------------------------------------------------------------ Pop's unlocked Empty() test *)
Lemma pushes_refines : forall xs r, wf r ->
  wf (pushes r xs) /\ abs (pushes r xs) = abs r ++ xs.
Proof.
  induction xs as [|x xs IH]; intros r W; cbn [pushes].
  - rewrite app_nil_r. auto.
  - destruct (ring_push_refines r x W) as [A W'].
    destruct (IH (push r x) W') as [W2 A2]. rewrite A2, A, <- app_assoc. auto.
Qed.

(* The consumer reads len without the lock.  If it read 0, Pop returns (nil,false): an atomic
   Pop at the moment of the read.  If it read > 0, then after ANY pushes that got the lock in
   between, the locked part is exactly an atomic Pop on the then-current queue. *)
Lemma pop_split_atomic r xs : wf r -> 0 < r_len r ->
  pop_locked (pushes r xs) = pop (pushes r xs) /\
  forall k, popmany_locked (pushes r xs) k = pop_many (pushes r xs) k.
Proof.
  intros W Hp. destruct (pushes_refines xs r W) as [W' A].
  pose proof (ring_len_refines _ W') as L. pose proof (ring_len_refines _ W) as L0.
  rewrite A, app_length in L.
  unfold pop, pop_many. destruct (Z.eqb_spec (r_len (pushes r xs)) 0) as [E|E]; [lia|]. auto.
Qed.

(* ================================================================== mpsc *)
Definition olist (o : option mobs) : list mobs := match o with Some b => [b] | None => [] end.

Lemma mrun_step_eq s a e : mrun_step (s, a) e = (fst (mstep s e), a ++ olist (snd (mstep s e))).
Proof.
  unfold mrun_step. destruct (mstep s e) as [s' [b|]]; cbn [fst snd olist];
    [reflexivity | rewrite app_nil_r; reflexivity].
Qed.

Lemma mrun_acc : forall sched s acc,
  fold_left mrun_step sched (s, acc) = (fst (mrun_from s sched), acc ++ snd (mrun_from s sched)).
Proof.
  unfold mrun_from. induction sched as [|e sched IH]; intros s acc.
  - cbn [fold_left fst snd]. rewrite app_nil_r. reflexivity.
  - cbn [fold_left]. rewrite !mrun_step_eq.
    rewrite (IH _ (acc ++ _)), (IH _ ([] ++ _)). cbn [fst snd app].
    rewrite <- app_assoc. reflexivity.
Qed.

Lemma mrun_cons s e sched :
  mrun_from s (e :: sched) =
  (fst (mrun_from (fst (mstep s e)) sched),
   olist (snd (mstep s e)) ++ snd (mrun_from (fst (mstep s e)) sched)).
Proof.
  unfold mrun_from at 1. cbn [fold_left]. rewrite mrun_step_eq, mrun_acc. reflexivity.
Qed.

Lemma mrun_nil s : mrun_from s [] = (s, []).
Proof. reflexivity. Qed.

(* -- association list of producers in flight *)
Lemma pfind_premove_same p l : pfind p (premove p l) = None.
Proof.
  induction l as [|[q i] l IH]; cbn [premove pfind]; [reflexivity|].
  destruct (Z.eqb_spec p q) as [E|E]; [exact IH|].
  cbn [pfind]. destruct (Z.eqb_spec p q); [contradiction | exact IH].
Qed.

Lemma pfind_premove_other p q l : q <> p -> pfind q (premove p l) = pfind q l.
Proof.
  intro N. induction l as [|[a i] l IH]; cbn [premove pfind]; [reflexivity|].
  destruct (Z.eqb_spec p a) as [E|E].
  - subst a. destruct (Z.eqb_spec q p); [contradiction | exact IH].
  - cbn [pfind]. rewrite IH. reflexivity.
Qed.

(* -- the chain *)
Definition mark (n : node) : node := mkNode (owner n) (val n) true.

Lemma nth_error_set_linked : forall c i j,
  nth_error (set_linked i c) j =
  if Nat.eqb j i then option_map mark (nth_error c j) else nth_error c j.
Proof.
  induction c as [|n c IH]; intros i j.
  - cbn [set_linked]. destruct i; destruct (Nat.eqb j _); destruct j; reflexivity.
  - destruct i as [|i], j as [|j]; cbn [set_linked nth_error Nat.eqb option_map]; try reflexivity.
    apply IH.
Qed.

Lemma map_val_set_linked : forall c i, map val (set_linked i c) = map val c.
Proof.
  induction c as [|n c IH]; intros [|i]; cbn [set_linked map val]; try reflexivity.
  rewrite IH. reflexivity.
Qed.

Lemma by_owner_set_linked p : forall c i,
  map val (by_owner p (set_linked i c)) = map val (by_owner p c).
Proof.
  unfold by_owner. induction c as [|n c IH]; intros [|i]; cbn [set_linked filter owner];
    try reflexivity.
  - destruct (Z.eqb (owner n) p); reflexivity.
  - destruct (Z.eqb (owner n) p); cbn [map]; rewrite IH; reflexivity.
Qed.

Lemma set_linked_length : forall c i, length (set_linked i c) = length c.
Proof.
  induction c as [|n c IH]; intros [|i]; cbn [set_linked length]; try reflexivity.
  rewrite IH. reflexivity.
Qed.

Lemma set_linked_app_last : forall c n,
  set_linked (length c) (c ++ [n]) = c ++ [mark n].
Proof.
  induction c as [|a c IH]; intro n; cbn [length app set_linked]; [reflexivity|].
  rewrite IH. reflexivity.
Qed.

Lemma firstn_S_nth {A} : forall c (l : list A) a,
  nth_error l c = Some a -> firstn (S c) l = firstn c l ++ [a].
Proof.
  induction c as [|c IH]; intros [|b l] a H; cbn [nth_error] in H; try discriminate.
  - inv H. reflexivity.
  - cbn [firstn app]. f_equal. apply IH. exact H.
Qed.

Lemma skipn_cons_nth {A} : forall c (l : list A) a r,
  skipn c l = a :: r -> nth_error l c = Some a /\ skipn (S c) l = r.
Proof.
  induction c as [|c IH]; intros [|b l] a r H; cbn [skipn] in H; try discriminate.
  - inv H. split; reflexivity.
  - apply IH in H. exact H.
Qed.

Lemma skipn_nth_cons {A} : forall c (l : list A) a,
  nth_error l c = Some a -> skipn c l = a :: skipn (S c) l.
Proof.
  induction c as [|c IH]; intros [|b l] a H; cbn [nth_error] in H; try discriminate.
  - inv H. reflexivity.
  - cbn [skipn]. apply IH in H. exact H.
Qed.

Lemma popped_app a b : popped (a ++ b) = popped a ++ popped b.
Proof. unfold popped. apply flat_map_app. Qed.

(* -- invariant *)
Definition minv (s : mstate) : Prop :=
  (consumed s <= length (chain s))%nat /\
  forall i n, nth_error (chain s) i = Some n -> linked n = false ->
              pfind (owner n) (pend s) = Some i.

Lemma minv_init : minv minit.
Proof. split; [cbn; lia|]. intros [|i] n H; discriminate. Qed.

Lemma next_visible_some s x : next_visible s = Some x ->
  exists n, nth_error (chain s) (consumed s) = Some n /\ linked n = true /\ val n = x.
Proof.
  unfold next_visible. destruct (nth_error (chain s) (consumed s)) as [n|]; [|discriminate].
  destruct (linked n) eqn:L; [|discriminate]. intro H. inv H. eauto.
Qed.

Lemma minv_step s e : minv s -> minv (fst (mstep s e)).
Proof.
  intros [I1 I2]. destruct e as [p x|p| |]; cbn [mstep].
  - destruct (pfind p (pend s)) as [i0|] eqn:F; cbn [fst]; [split; assumption|].
    split; cbn [chain pend consumed].
    + rewrite app_length. lia.
    + intros i n H L. destruct (Nat.lt_ge_cases i (length (chain s))) as [A|A].
      * rewrite nth_error_app1 in H by exact A. pose proof (I2 i n H L) as P.
        cbn [pfind]. destruct (Z.eqb_spec (owner n) p) as [E|E]; [congruence | exact P].
      * rewrite nth_error_app2 in H by exact A.
        destruct (i - length (chain s))%nat as [|d] eqn:D; cbn [nth_error] in H.
        -- inv H. cbn [owner pfind]. rewrite Z.eqb_refl. f_equal. lia.
        -- destruct d; discriminate.
  - destruct (pfind p (pend s)) as [i0|] eqn:F; cbn [fst]; [|split; assumption].
    split; cbn [chain pend consumed].
    + rewrite set_linked_length. exact I1.
    + intros i n H L. rewrite nth_error_set_linked in H.
      destruct (Nat.eqb_spec i i0) as [E|E].
      * destruct (nth_error (chain s) i); cbn [option_map] in H; [|discriminate].
        inv H. discriminate.
      * pose proof (I2 i n H L) as P.
        rewrite pfind_premove_other; [exact P|]. intro X. rewrite X, F in P. congruence.
  - unfold mpop. destruct (next_visible s) as [x|] eqn:V; cbn [fst]; [|split; assumption].
    destruct (next_visible_some s x V) as (n & H & _).
    split; cbn [chain pend consumed]; [|exact I2].
    apply Nat.le_succ_l. apply nth_error_Some. congruence.
  - cbn [fst]. split; assumption.
Qed.

Lemma minv_run : forall sched s, minv s -> minv (fst (mrun_from s sched)).
Proof.
  induction sched as [|e sched IH]; intros s I; [exact I|].
  rewrite mrun_cons. cbn [fst]. apply IH. apply minv_step. exact I.
Qed.

(* -- the popped sequence is the consumed prefix of the swap order *)
Lemma step_popped s e : minv s ->
  map val (firstn (consumed (fst (mstep s e))) (chain (fst (mstep s e)))) =
  map val (firstn (consumed s) (chain s)) ++ popped (olist (snd (mstep s e))).
Proof.
  intros [I1 _]. destruct e as [p x|p| |]; cbn [mstep].
  - destruct (pfind p (pend s)); cbn [fst snd olist popped flat_map chain consumed];
      rewrite app_nil_r; [reflexivity|].
    rewrite firstn_app. replace (consumed s - length (chain s))%nat with 0%nat by lia.
    cbn [firstn]. rewrite app_nil_r. reflexivity.
  - destruct (pfind p (pend s)); cbn [fst snd olist popped flat_map chain consumed];
      rewrite app_nil_r; [|reflexivity].
    rewrite <- !firstn_map, map_val_set_linked. reflexivity.
  - unfold mpop. destruct (next_visible s) as [x|] eqn:V;
      cbn [fst snd olist popped flat_map chain consumed app].
    + destruct (next_visible_some s x V) as (n & H & _ & Hv).
      rewrite (firstn_S_nth _ _ _ H), map_app. cbn [map]. rewrite Hv. reflexivity.
    + rewrite app_nil_r. reflexivity.
  - cbn [fst snd olist popped flat_map app]. rewrite app_nil_r. reflexivity.
Qed.

Lemma run_popped : forall sched s, minv s ->
  map val (firstn (consumed (fst (mrun_from s sched))) (chain (fst (mrun_from s sched)))) =
  map val (firstn (consumed s) (chain s)) ++ popped (snd (mrun_from s sched)).
Proof.
  induction sched as [|e sched IH]; intros s I.
  - rewrite mrun_nil. cbn [fst snd popped flat_map]. rewrite app_nil_r. reflexivity.
  - rewrite mrun_cons. cbn [fst snd]. rewrite IH by (apply minv_step; exact I).
    rewrite step_popped by exact I. rewrite popped_app, app_assoc. reflexivity.
Qed.

(* -- per-producer order *)
Lemma busy_cons_same p i l : busy_in (mkM [] ((p, i) :: l) 0) p = true.
Proof. unfold busy_in. cbn [pend pfind]. rewrite Z.eqb_refl. reflexivity. Qed.

Lemma step_owner s e p :
  map val (by_owner p (chain (fst (mstep s e)))) ++
    issued p (busy_in (fst (mstep s e)) p) [] =
  map val (by_owner p (chain (fst (mstep s e)))).
Proof. cbn [issued]. apply app_nil_r. Qed.

Lemma run_owner : forall sched s p,
  map val (by_owner p (chain (fst (mrun_from s sched)))) =
  map val (by_owner p (chain s)) ++ issued p (busy_in s p) sched.
Proof.
  induction sched as [|e sched IH]; intros s p.
  - rewrite mrun_nil. cbn [fst issued]. rewrite app_nil_r. reflexivity.
  - rewrite mrun_cons. cbn [fst]. rewrite IH. unfold busy_in.
    destruct e as [q x|q| |]; cbn [mstep issued].
    + destruct (Z.eqb_spec q p) as [E|E].
      * subst q. destruct (pfind p (pend s)) as [i0|] eqn:F; cbn [fst chain pend].
        -- rewrite F. reflexivity.
        -- cbn [pfind]. rewrite Z.eqb_refl. unfold by_owner. rewrite filter_app, map_app.
           cbn [filter owner]. rewrite Z.eqb_refl. cbn [map val]. rewrite <- app_assoc. reflexivity.
      * destruct (pfind q (pend s)) as [i0|] eqn:F; cbn [fst chain pend]; [reflexivity|].
        cbn [pfind]. destruct (Z.eqb_spec p q) as [E2|E2]; [congruence|].
        unfold by_owner. rewrite filter_app. cbn [filter owner].
        destruct (Z.eqb_spec q p); [contradiction|]. rewrite app_nil_r. reflexivity.
    + destruct (Z.eqb_spec q p) as [E|E].
      * subst q. destruct (pfind p (pend s)) as [i0|] eqn:F; cbn [fst chain pend].
        -- rewrite pfind_premove_same, by_owner_set_linked. reflexivity.
        -- rewrite F. reflexivity.
      * destruct (pfind q (pend s)) as [i0|] eqn:F; cbn [fst chain pend]; [|reflexivity].
        rewrite pfind_premove_other by congruence. rewrite by_owner_set_linked. reflexivity.
    + unfold mpop. destruct (next_visible s); cbn [fst chain pend]; reflexivity.
    + cbn [fst]. reflexivity.
Qed.

Lemma by_owner_prefix p c (l : list node) :
  prefix (map val (by_owner p (firstn c l))) (map val (by_owner p l)).
Proof.
  exists (map val (by_owner p (skipn c l))).
  rewrite <- map_app. unfold by_owner. rewrite <- filter_app, firstn_skipn. reflexivity.
Qed.

(* -- when every push has completed, everything swapped can be popped, in swap order *)
Lemma all_linked s : minv s -> quiescent s ->
  forall i n, nth_error (chain s) i = Some n -> linked n = true.
Proof.
  intros [_ I2] Q i n H. destruct (linked n) eqn:L; [reflexivity|].
  pose proof (I2 i n H L) as P. rewrite Q in P. discriminate.
Qed.

Lemma drain : forall k s,
  (forall i n, nth_error (chain s) i = Some n -> linked n = true) ->
  (consumed s + k <= length (chain s))%nat ->
  mrun_from s (repeat EPop k) =
  (mkM (chain s) (pend s) (consumed s + k),
   map (fun x => MPopRes (Some x)) (firstn k (skipn (consumed s) (map val (chain s))))).
Proof.
  induction k as [|k IH]; intros s AL Hle.
  - cbn [repeat firstn map]. rewrite mrun_nil, Nat.add_0_r. destruct s; reflexivity.
  - cbn [repeat]. rewrite mrun_cons. cbn [mstep].
    destruct (nth_error (chain s) (consumed s)) as [n|] eqn:H;
      [|apply nth_error_None in H; lia].
    pose proof (AL _ _ H) as L.
    assert (V : next_visible s = Some (val n)) by (unfold next_visible; rewrite H, L; reflexivity).
    unfold mpop. rewrite V. cbn [fst snd olist].
    rewrite IH; cbn [chain pend consumed]; [| exact AL | lia].
    cbn [fst snd app]. f_equal; [f_equal; lia|].
    rewrite (skipn_nth_cons (consumed s) (map val (chain s)) (val n))
      by (apply map_nth_error; exact H).
    reflexivity.
Qed.

Lemma drain_all s : minv s -> quiescent s ->
  let k := (length (chain s) - consumed s)%nat in
  snd (mrun_from s (repeat EPop k)) =
    map (fun x => MPopRes (Some x)) (skipn (consumed s) (swap_order s)) /\
  next_visible (fst (mrun_from s (repeat EPop k))) = None /\
  swap_order (fst (mrun_from s (repeat EPop k))) = swap_order s.
Proof.
  intros I Q k. pose proof (all_linked s I Q) as AL. destruct I as [I1 _].
  rewrite drain by (try exact AL; unfold k; lia). cbn [fst snd]. unfold swap_order.
  cbn [chain]. repeat split.
  - f_equal. apply firstn_all2. rewrite skipn_length, map_length. unfold k. lia.
  - unfold next_visible. cbn [chain consumed].
    replace (nth_error (chain s) (consumed s + k)) with (@None node); [reflexivity|].
    symmetry. apply nth_error_None. unfold k. lia.
Qed.

(* -- Pop returns nil only when nothing is swapped-in ahead, or the next node's producer is
      between its two steps *)
Lemma pop_none_reason s : minv s -> next_visible s = None ->
  consumed s = length (chain s) \/ exists p, pfind p (pend s) = Some (consumed s).
Proof.
  intros [I1 I2] V. unfold next_visible in V.
  destruct (nth_error (chain s) (consumed s)) as [n|] eqn:H.
  - destruct (linked n) eqn:L; [discriminate|]. right. exists (owner n). apply I2; assumption.
  - left. apply nth_error_None in H. lia.
Qed.

Lemma popped_length_map (l : list node) : length (map val l) = length l.
Proof. apply map_length. Qed.

Theorem mpsc_refines_fifo sched :
  let s := fst (mrun sched) in
  let out := snd (mrun sched) in
  popped out = map val (popped_nodes s) /\
  prefix (popped out) (swap_order s) /\
  length (popped out) = consumed s /\
  (consumed s <= length (chain s))%nat /\
  (forall p, map val (by_owner p (chain s)) = issued p false sched) /\
  (forall p, prefix (map val (by_owner p (popped_nodes s))) (issued p false sched)) /\
  (next_visible s = None ->
     consumed s = length (chain s) \/ exists p, pfind p (pend s) = Some (consumed s)) /\
  (quiescent s ->
     let k := (length (chain s) - consumed s)%nat in
     snd (mrun_from s (repeat EPop k)) =
       map (fun x => MPopRes (Some x)) (skipn (consumed s) (swap_order s)) /\
     next_visible (fst (mrun_from s (repeat EPop k))) = None /\
     popped out ++ skipn (consumed s) (swap_order s) = swap_order s).
Proof.
  intros s out. unfold mrun in s, out.
  pose proof (minv_run sched minit minv_init) as I. fold s in I.
  pose proof (run_popped sched minit minv_init) as P. fold s in P. fold out in P.
  cbn [minit consumed chain firstn map app] in P.
  assert (O : forall p, map val (by_owner p (chain s)) = issued p false sched).
  { intro p. unfold s. rewrite run_owner. reflexivity. }
  assert (Ep : popped out = map val (popped_nodes s)) by (symmetry; exact P).
  destruct I as [I1 I2].
  split; [exact Ep|]. split.
  { exists (map val (skipn (consumed s) (chain s))). rewrite Ep. unfold popped_nodes, swap_order.
    rewrite <- map_app, firstn_skipn. reflexivity. }
  split.
  { rewrite Ep. unfold popped_nodes. rewrite map_length, firstn_length. lia. }
  split; [exact I1|]. split; [exact O|]. split.
  { intro p. rewrite <- O. apply by_owner_prefix. }
  split.
  { apply pop_none_reason. split; assumption. }
  intros Q k. destruct (drain_all s (conj I1 I2) Q) as (D1 & D2 & _).
  split; [exact D1|]. split; [exact D2|].
  rewrite Ep. unfold popped_nodes, swap_order. rewrite <- firstn_map.
  apply firstn_skipn.
Qed.

(* -- sequential use is a list FIFO *)
Definition seq_inv (m : mstate) (l : list Z) : Prop :=
  pend m = [] /\
  (forall n, In n (chain m) -> linked n = true) /\
  (consumed m <= length (chain m))%nat /\
  l = map val (skipn (consumed m) (chain m)).

Lemma seq_inv_init : seq_inv minit [].
Proof.
  unfold seq_inv, minit. cbn [pend chain consumed length skipn map].
  split; [reflexivity|]. split; [intros n []|]. split; [lia | reflexivity].
Qed.

Lemma seq_push m l x : seq_inv m l -> seq_inv (mpush_seq m x) (l ++ [x]).
Proof.
  intros (Q & AL & C & E). unfold mpush_seq. cbn [mstep]. rewrite Q. cbn [pfind fst].
  cbn [mstep pend pfind]. rewrite Z.eqb_refl. cbn [fst chain premove consumed].
  rewrite Z.eqb_refl. cbn [premove]. rewrite set_linked_app_last.
  unfold seq_inv. cbn [pend chain consumed]. repeat split.
  - intros n H. apply in_app_or in H. destruct H as [H|[H|[]]]; [apply AL; exact H|].
    subst n. reflexivity.
  - rewrite app_length. lia.
  - rewrite skipn_app, map_app. replace (consumed m - length (chain m))%nat with 0%nat by lia.
    cbn [skipn map mark val]. rewrite E. reflexivity.
Qed.

Lemma seq_next m l : seq_inv m l -> next_visible m = hd_error l.
Proof.
  intros (Q & AL & C & E). unfold next_visible.
  destruct (skipn (consumed m) (chain m)) as [|n r] eqn:S.
  - subst l. cbn [map hd_error].
    replace (nth_error (chain m) (consumed m)) with (@None node); [reflexivity|].
    symmetry. apply nth_error_None.
    pose proof (skipn_length (consumed m) (chain m)) as SL. rewrite S in SL. cbn [length] in SL. lia.
  - destruct (skipn_cons_nth _ _ _ _ S) as [H _]. rewrite H.
    rewrite (AL n) by (eapply nth_error_In; exact H). subst l. reflexivity.
Qed.

Lemma seq_pop m l : seq_inv m l ->
  match l with
  | [] => mpop m = (m, None)
  | x :: t => exists m', mpop m = (m', Some x) /\ seq_inv m' t
  end.
Proof.
  intro I. pose proof (seq_next m l I) as V. destruct I as (Q & AL & C & E).
  unfold mpop. rewrite V. destruct l as [|x t]; cbn [hd_error]; [reflexivity|].
  eexists. split; [reflexivity|].
  destruct (skipn (consumed m) (chain m)) as [|n r] eqn:S; [discriminate|].
  destruct (skipn_cons_nth _ _ _ _ S) as [H S'].
  unfold seq_inv. cbn [pend chain consumed]. repeat split; try assumption.
  - apply Nat.le_succ_l. apply nth_error_Some. congruence.
  - rewrite S'. cbn [map] in E. inv E. reflexivity.
Qed.

Lemma seq_empty m l : seq_inv m l -> mempty m = match l with [] => true | _ => false end.
Proof.
  intro I. unfold mempty. rewrite (seq_next m l I). destruct l; reflexivity.
Qed.

Lemma mstep_swap_snd s p x : snd (mstep s (ESwap p x)) = None.
Proof. cbn [mstep]. destruct (pfind p (pend s)); reflexivity. Qed.

Lemma mstep_link_snd s p : snd (mstep s (ELink p)) = None.
Proof. cbn [mstep]. destruct (pfind p (pend s)); reflexivity. Qed.

Lemma mpsc_sequential : forall ops m l, seq_inv m l ->
  snd (mrun_from m (flat_map compile ops)) = sfifo l ops.
Proof.
  induction ops as [|o ops IH]; intros m l I; [reflexivity|].
  destruct o as [x| |]; cbn [flat_map compile app sfifo].
  - rewrite !mrun_cons. cbn [snd]. rewrite mstep_swap_snd, mstep_link_snd. cbn [olist app].
    apply (IH (mpush_seq m x)). apply seq_push. exact I.
  - rewrite mrun_cons. cbn [snd mstep]. pose proof (seq_pop m l I) as P.
    destruct l as [|x t].
    + rewrite P. cbn [fst snd olist app]. f_equal. apply IH. exact I.
    + destruct P as (m' & P & I'). rewrite P. cbn [fst snd olist app]. f_equal. apply IH. exact I'.
  - rewrite mrun_cons. cbn [snd mstep fst olist app]. rewrite (seq_empty m l I).
    f_equal. apply IH. exact I.
Qed.

(* ================================================================== the harness-visible run *)
Lemma step_is_spec r m l o : wf r -> seq_inv m l ->
  snd (step (r, m) o) = snd (spec_step (abs r, l) o) /\
  wf (fst (fst (step (r, m) o))) /\
  abs (fst (fst (step (r, m) o))) = fst (fst (spec_step (abs r, l) o)) /\
  seq_inv (snd (fst (step (r, m) o))) (snd (fst (spec_step (abs r, l) o))).
Proof.
  intros W I. destruct o as [n|x| |k| |np nv n0| |x| | |np nv]; cbn [step spec_step].
  - destruct (Z.ltb_spec n 1) as [L|L]; cbn [fst snd]; [auto|].
    destruct (ring_new_refines n L) as [W' A]. auto.
  - destruct (ring_push_refines r x W) as [A W']. cbn [fst snd]. auto.
  - pose proof (ring_pop_refines r W) as P. destruct (abs r) as [|x t] eqn:E.
    + rewrite P. cbn [fst snd]. auto.
    + destruct P as (r' & P & A & W'). rewrite P. cbn [fst snd]. auto.
  - destruct (Z.ltb_spec k 0) as [L|L]; cbn [fst snd]; [auto|].
    pose proof (ring_popmany_refines r k W L) as P. destruct (abs r) as [|x t] eqn:E.
    + rewrite P. cbn [fst snd]. auto.
    + destruct P as (r' & P & A & W'). rewrite P. cbn [fst snd]. auto.
  - cbn [fst snd]. rewrite (ring_len_refines r W). auto.
  - cbn [fst snd]. auto.
  - cbn [fst snd]. pose proof seq_inv_init. auto.
  - cbn [fst snd]. pose proof (seq_push m l x I). auto.
  - pose proof (seq_pop m l I) as P. destruct l as [|x t].
    + rewrite P. cbn [fst snd]. auto.
    + destruct P as (m' & P & I'). rewrite P. cbn [fst snd]. auto.
  - cbn [fst snd]. rewrite (seq_empty m l I). auto.
  - cbn [fst snd]. auto.
Qed.

Lemma run_is_spec_gen : forall ops r m l acc, wf r -> seq_inv m l ->
  snd (fold_left run_step ops ((r, m), acc)) =
  snd (fold_left spec_run_step ops ((abs r, l), acc)).
Proof.
  induction ops as [|o ops IH]; intros r m l acc W I; [reflexivity|].
  cbn [fold_left]. unfold run_step at 2, spec_run_step at 2.
  destruct (step_is_spec r m l o W I) as (A & W' & B & I').
  destruct (step (r, m) o) as [[r' m'] b]. destruct (spec_step (abs r, l) o) as [[u' l'] b'].
  cbn [fst snd] in *. subst b' u'. apply IH; assumption.
Qed.

Lemma run_is_spec ops : run ops = spec_run ops.
Proof.
  unfold run, spec_run, run_from, init.
  destruct (ring_new_refines 10) as [W A]; [lia|].
  rewrite <- A. apply run_is_spec_gen; [exact W | exact seq_inv_init].
Qed.
