(* C09ring - what the queues must be: plain FIFO lists.  Definitions only, no proofs.

   goring : a sequential queue object (every method body runs under the mutex); the spec is
            the list with append / take-from-front.
   mpsc   : a concurrent object; the spec is stated over every schedule of producer steps
            (swap, link) and consumer steps, against functions of the schedule alone. *)
From Cell2V Require Import Common.Tac Common.ListX C09ring.Model.

(* ------------------------------------------------------------------ goring *)
(* representation invariant of the ring buffer *)
Definition wf (r : ring) : Prop :=
  0 < r_mod r /\
  r_mod r = Z.of_nat (length (r_buf r)) /\
  0 <= r_head r < r_mod r /\
  0 <= r_tail r < r_mod r /\
  r_len r = live r /\
  (forall i, 0 <= i < r_len r ->
     exists x, bget (r_buf r) (slotpos (r_head r) (r_mod r) i) = Some x) /\
  (forall i, r_len r <= i < r_mod r ->
     bget (r_buf r) (slotpos (r_head r) (r_mod r) i) = None).

Inductive qop := QPush (x : Z) | QPop | QPopMany (k : Z) | QLen.

Inductive qres :=
| RUnit
| RPop (v : option Z) (ok : bool)
| RMany (vs : list (option Z)) (ok : bool)
| RLen (n : Z).

(* the specification: a list *)
Definition fifo_step (l : list Z) (o : qop) : list Z * qres :=
  match o with
  | QPush x => (l ++ [x], RUnit)
  | QPop =>
      match l with
      | [] => (l, RPop None false)
      | x :: t => (t, RPop (Some x) true)
      end
  | QPopMany k =>
      match l with
      | [] => (l, RMany [] false)
      | _ => (skipn (Z.to_nat k) l, RMany (map Some (firstn (Z.to_nat k) l)) true)
      end
  | QLen => (l, RLen (Z.of_nat (length l)))
  end.

(* the implementation model *)
Definition ring_step (r : ring) (o : qop) : ring * qres :=
  match o with
  | QPush x => (push r x, RUnit)
  | QPop => let '(r', (v, ok)) := pop r in (r', RPop v ok)
  | QPopMany k => let '(r', (vs, ok)) := pop_many r k in (r', RMany vs ok)
  | QLen => (r, RLen (r_len r))
  end.

Definition qrun_step {S} (step : S -> qop -> S * qres) (acc : S * list qres) (o : qop)
  : S * list qres :=
  let '(s, out) := acc in
  let '(s', b) := step s o in
  (s', out ++ [b]).

Definition qrun {S} (step : S -> qop -> S * qres) (s : S) (ops : list qop) : S * list qres :=
  fold_left (qrun_step step) ops (s, []).

(* precondition of PopMany *)
Definition counts_ok (ops : list qop) : Prop := forall k, In (QPopMany k) ops -> 0 <= k.

(* "this operation does not panic" *)
Definition op_inbounds (r : ring) (o : qop) : bool :=
  match o with
  | QPush _ => push_inbounds r
  | QPop => pop_inbounds r
  | QPopMany k => popmany_inbounds r k
  | QLen => true
  end.

Fixpoint pushes (r : ring) (xs : list Z) : ring :=
  match xs with [] => r | x :: t => pushes (push r x) t end.

(* ------------------------------------------------------------------ mpsc *)
Definition prefix {A} (a b : list A) : Prop := exists r, b = a ++ r.

(* values whose Push was started by producer p, in program order: a function of the schedule
   alone.  A producer is sequential: a swap while its previous push is unfinished is not a step
   it can take (ignored), [busy] tracks that. *)
Fixpoint issued (p : Z) (busy : bool) (sched : list ev) : list Z :=
  match sched with
  | [] => []
  | ESwap q x :: r =>
      if Z.eqb q p then (if busy then issued p busy r else x :: issued p true r)
      else issued p busy r
  | ELink q :: r => if Z.eqb q p then issued p false r else issued p busy r
  | (EPop | EEmpty) :: r => issued p busy r
  end.

Definition by_owner (p : Z) (c : list node) : list node := filter (fun n => Z.eqb (owner n) p) c.
Definition swap_order (s : mstate) : list Z := map val (chain s).
Definition popped_nodes (s : mstate) : list node := firstn (consumed s) (chain s).

(* values returned by successful Pops, in order *)
Definition popped (out : list mobs) : list Z :=
  flat_map (fun b => match b with MPopRes (Some x) => [x] | _ => [] end) out.

Definition busy_in (s : mstate) (p : Z) : bool :=
  match pfind p (pend s) with Some _ => true | None => false end.

(* all pushes have completed *)
Definition quiescent (s : mstate) : Prop := pend s = [].

(* sequential use: one producer that is also the consumer *)
Inductive sop := SPush (x : Z) | SPop | SEmpty.

Definition compile (o : sop) : list ev :=
  match o with
  | SPush x => [ESwap 0 x; ELink 0]
  | SPop => [EPop]
  | SEmpty => [EEmpty]
  end.

Fixpoint sfifo (l : list Z) (ops : list sop) : list mobs :=
  match ops with
  | [] => []
  | SPush x :: r => sfifo (l ++ [x]) r
  | SPop :: r =>
      match l with
      | [] => MPopRes None :: sfifo l r
      | x :: t => MPopRes (Some x) :: sfifo t r
      end
  | SEmpty :: r => MEmptyRes (match l with [] => true | _ => false end) :: sfifo l r
  end.

(* ------------------------------------------------------------------ the harness-visible spec *)
(* two plain lists; this is also the property monitor run on the implementation's trace *)
Definition spec_st := (list Z * list Z)%type.

Definition spec_step (s : spec_st) (o : op) : spec_st * obs :=
  let '(u, m) := s in
  match o with
  | ONew n => if n <? 1 then (s, BSkip) else (([], m), BUnit)
  | OPush x => ((u ++ [x], m), BUnit)
  | OPop =>
      match u with
      | [] => (s, BPop None false)
      | x :: t => ((t, m), BPop (Some x) true)
      end
  | OPopMany k =>
      if k <? 0 then (s, BSkip)
      else match u with
           | [] => (s, BMany [] false)
           | _ => ((skipn (Z.to_nat k) u, m), BMany (map Some (firstn (Z.to_nat k) u)) true)
           end
  | OLen => (s, BLen (Z.of_nat (length u)))
  | OStress np nv n0 => (s, if stress_ok np nv && (1 <=? n0) then BStress true true else BSkip)
  | MNew => ((u, []), BUnit)
  | MPush x => ((u, m ++ [x]), BUnit)
  | MPop =>
      match m with
      | [] => (s, BMPop None)
      | x :: t => ((u, t), BMPop (Some x))
      end
  | MEmpty => (s, BEmpty (match m with [] => true | _ => false end))
  | MStress np nv => (s, if stress_ok np nv then BStress true true else BSkip)
  end.

Definition spec_run_step (acc : spec_st * list obs) (o : op) : spec_st * list obs :=
  let '(s, out) := acc in
  let '(s', b) := spec_step s o in
  (s', out ++ [b]).

Definition spec_run (ops : list op) : list obs :=
  snd (fold_left spec_run_step ops (([], []), [])).
