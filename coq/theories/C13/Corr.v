(* C13 - correspondence entry point: executable comparison of the model's outputs with the
   implementation's observed outputs, and the property monitor (Spec.monitor_from: the full
   property - F4 included - evaluated on the implementation's own trace). *)
From Cell2V Require Import Common.Tac Common.ListX C13.Model C13.Spec.

Definition obs_eqb (a b : obs) : bool :=
  match a, b with
  | BUnit, BUnit => true
  | BBool x, BBool y => Bool.eqb x y
  | BArg x, BArg y => oz_eqb x y
  | BCall t e, BCall t' e' => trace_eqb t t' && Bool.eqb e e'
  | BFire d e, BFire d' e' => fevs_eqb d d' && Bool.eqb e e'
  | BDisp i r f e, BDisp i' r' f' e' => trace_eqb i i' && rsps_eqb r r' && Bool.eqb f f' && Bool.eqb e e'
  | _, _ => false
  end.

Definition case := (list op * list obs)%type.

Definition agree (c : case) : bool := list_eqb obs_eqb (run (fst c)) (snd c).
Definition monitor (c : case) : bool := monitor_from sinit (fst c) (snd c).

Definition disagreeing (cs : list case) : list Z := failing agree cs.
Definition monitor_failing (cs : list case) : list Z := failing monitor cs.
