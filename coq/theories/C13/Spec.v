(* C13 - the property, stated over the REGISTERED ENTRIES (descriptors + options) and not over
   the tables Build() constructs.  No proofs in this file.

   Part 1 (exposure).  [handler_shape] is the property's "exported method of handler shape
   (context pointer, message pointer, optional completion function)".  [exposed es route] says:
   the route splits into group.method (one segment = inner group "_"), the group is OWNED by a
   registered entry, and that entry has a handler-shaped method whose renamed name is the method
   segment.  Ownership makes two facts of the code explicit that the property text leaves open:
   an entry serves only if its type name is exported and it has at least one handler-shaped
   method; among several entries claiming one group name the first serving one owns it.

   Part 2 (calls).  [expect_*] classifies a call from the entries alone as VFail (unknown
   group/method, malformed route, nil serializer, undecodable payload, argument the method's
   signature cannot take) or VGood mt seen (the method that has to run and the message value it
   has to be given); [demand] is what the property then requires of the observed trace. *)
From Cell2V Require Import Common.Tac Common.ListX C13.Model.

(* ---- shape ---- *)
Definition request_shape (m : meth) : Prop :=
  m_exported m = true /\
  exists c a f, m_ins m = [c; a; f] /\
    p_ptr c = true /\ p_ctx c = true /\ p_ptr a = true /\ p_func f = true.

Definition notify_shape (m : meth) : Prop :=
  m_exported m = true /\
  exists c a, m_ins m = [c; a] /\ p_ptr c = true /\ p_ctx c = true /\ p_ptr a = true.

Definition handler_shape (m : meth) : Prop := request_shape m \/ notify_shape m.

Definition shape_b (m : meth) : bool :=
  m_exported m &&
  match m_ins m with
  | [c; a] => p_ptr c && p_ctx c && p_ptr a
  | [c; a; f] => p_ptr c && p_ctx c && p_ptr a && p_func f
  | _ => false
  end.

Definition is_request (m : meth) : bool := match m_ins m with [_; _; _] => true | _ => false end.
Definition msg_type (m : meth) : param := nth 1 (m_ins m) dflt_param.   (* declared message type *)
Definition ctx_type (m : meth) : param := nth 0 (m_ins m) dflt_param.
Definition cb_type (m : meth) : param := nth 2 (m_ins m) dflt_param.

(* ---- who owns a group, which method answers a name ---- *)
Definition eopt := (entry * opts)%type.

Definition spec_group (eo : eopt) : str :=
  match o_group (snd eo) with
  | [] => rename (o_nf (snd eo)) (e_tname (fst eo))
  | g => g
  end.

Definition new_name (eo : eopt) (mt : meth) : str := rename (o_nf (snd eo)) (m_name mt).

Definition servable (eo : eopt) : Prop :=
  is_exported_name (e_tname (fst eo)) = true /\
  exists m, In m (e_meths (fst eo)) /\ handler_shape m.

Definition owns (es : list eopt) (g : str) (eo : eopt) : Prop :=
  exists pre post, es = pre ++ eo :: post /\ spec_group eo = g /\ servable eo /\
    forall x, In x pre -> spec_group x = g -> ~ servable x.

Definition answers (eo : eopt) (m : str) (mt : meth) : Prop :=
  In mt (e_meths (fst eo)) /\ handler_shape mt /\ new_name eo mt = m.

(* the method a name selects: the LAST answering one in reflect's method order (only matters when
   the naming function maps two handler-shaped methods of one entry to the same name) *)
Definition selects (eo : eopt) (m : str) (mt : meth) : Prop :=
  exists l1 l2, e_meths (fst eo) = l1 ++ mt :: l2 /\ handler_shape mt /\ new_name eo mt = m /\
    forall x, In x l2 -> handler_shape x -> new_name eo x <> m.

Definition exposed (es : list eopt) (route : str) : Prop :=
  exists g m eo mt, split_route route = Some (g, m) /\ owns es g eo /\ answers eo m mt.

Definition targets (es : list eopt) (route : str) (mt : meth) : Prop :=
  exists g m eo, split_route route = Some (g, m) /\ owns es g eo /\ selects eo m mt.

(* executable versions *)
Definition servable_b (eo : eopt) : bool :=
  is_exported_name (e_tname (fst eo)) && existsb shape_b (e_meths (fst eo)).

Definition owner_b (es : list eopt) (g : str) : option eopt :=
  find (fun eo => str_eqb g (spec_group eo) && servable_b eo) es.

Definition target_b (eo : eopt) (m : str) : option meth :=
  find (fun mt => shape_b mt && str_eqb m (new_name eo mt)) (rev (e_meths (fst eo))).

Definition resolve (es : list eopt) (route : str) : option meth :=
  match split_route route with
  | None => None
  | Some (g, m) =>
      match owner_b es g with
      | None => None
      | Some eo => target_b eo m
      end
  end.

(* ---- rejected registrations ----
   Build() looks at the registrations in order; one is REJECTED when its group name is already
   taken in the tables made so far, or when ExtractHandler refuses it (unnamed or unexported type,
   no handler-shaped method - e.g. a value whose handlers have pointer receivers).  The property
   needs a rejected registration to leave the tables exactly as they were: only the ACCEPTED ones
   decide what is exposed. *)
Definition rejected (cs : smap container) (eo : eopt) : bool :=
  match sget (spec_group eo) cs with
  | Some _ => true
  | None => negb (servable_b eo)
  end.

Fixpoint accepted_from (cs : smap container) (es : list eopt) : list eopt :=
  match es with
  | [] => []
  | eo :: r =>
      if rejected cs eo then accepted_from cs r
      else eo :: accepted_from (new_service cs eo) r
  end.
Definition accepted (es : list eopt) : list eopt := accepted_from [] es.

(* ---- calls ---- *)
Inductive verdict :=
| VFail
| VGood (mt : meth) (seen : option Z).

(* can the method's signature take these argument values (what reflect.Call checks) *)
Definition fits (mt : meth) (c : ctxv) (a : argv) : bool :=
  ctx_fits (ctx_type mt) c && arg_fits (msg_type mt) a &&
  (if is_request mt then p_cbfit (cb_type mt) else true).

Definition expect_call (es : list eopt) (route : str) (c : ctxv) (a : argv) : verdict :=
  match resolve es route with
  | None => VFail
  | Some mt => if fits mt c a then VGood mt (seen_of a) else VFail
  end.

Definition expect_ser (es : list eopt) (s : ser) (route : str) (dec : list (Z * dres)) (c : ctxv)
  : verdict :=
  match s with
  | SNil => VFail
  | _ =>
      match resolve es route with
      | None => VFail
      | Some mt =>
          match decode dec (p_tid (msg_type mt)) with
          | DBad => VFail
          | DOk v => expect_call es route c (AVal (p_tid (msg_type mt)) 0 v)
          end
      end
  end.

Fixpoint invocations (tr : list ev) : list (Z * option Z) :=
  match tr with
  | [] => []
  | EvInvoke u s :: r => (u, s) :: invocations r
  | EvComplete _ :: r => invocations r
  end.

Fixpoint completions (tr : list ev) : list bool :=
  match tr with
  | [] => []
  | EvInvoke _ _ :: r => completions r
  | EvComplete e :: r => e :: completions r
  end.

(* the completions a request handler of behaviour b owes its caller: exactly one, unless the
   handler's own code returns normally without completing *)
Definition owed_g (rp : bool) (b : beh) : list bool :=
  match b with
  | BOk | BOkPanic | BTwice => [false]
  | BErr | BPanic | BPanicWith _ => [true]
  | BNever => []
  | BOkBad => [rp]   (* a result the completion function cannot deliver (it panics): an error instead *)
  | BDefer => []     (* owed later: the handler kept the completion function *)
  | BOkDefer => [false]
  | BDeferPanic => [true]
  end.

(* does the call leave a completion function behind in the handler, and in which guard state:
   only a good call of a request-shaped method that was given one *)
Definition spec_keeps (v : verdict) (cb : bool) (b : beh) : option bool :=
  match v with
  | VGood mt _ => if cb && is_request mt then keeps b else None
  | VFail => None
  end.
Definition owed : beh -> list bool := owed_g false.

Definition oz_eqb : option Z -> option Z -> bool := option_eqb Z.eqb.
Definition ev_eqb (a b : ev) : bool :=
  match a, b with
  | EvInvoke u s, EvInvoke u' s' => Z.eqb u u' && oz_eqb s s'
  | EvComplete e, EvComplete e' => Bool.eqb e e'
  | _, _ => false
  end.
Definition trace_eqb : list ev -> list ev -> bool := list_eqb ev_eqb.

(* The property for one call whose classification is v:
   - nothing escapes as a panic;
   - failure case: no method runs; a completion function is completed exactly once, with an error;
   - good case: exactly the selected method runs, once, first, with the decoded message; a
     completion function is completed as [owed] says (request shape), resp. exactly once (notify
     shape: either refused with an error before the method runs, or completed after it ran);
   - without a completion function nothing is completed. *)
Definition demand (v : verdict) (cb : bool) (b : beh) (tr : list ev) (esc : bool) : bool :=
  negb esc &&
  match v with
  | VFail => trace_eqb tr (if cb then [EvComplete true] else [])
  | VGood mt seen =>
      let inv := EvInvoke (m_uid mt) seen in
      if cb then
        if is_request mt then trace_eqb tr (inv :: map EvComplete (owed b))
        else trace_eqb tr [EvComplete true] || trace_eqb tr [inv; EvComplete true]
             || trace_eqb tr [inv; EvComplete false]
      else trace_eqb tr [inv]
  end.

(* the one situation in which today's code is known not to meet [demand] (F4) *)
Definition f4_direct (es : list eopt) (route : str) (cb : bool) : bool :=
  cb && match resolve es route with Some mt => negb (is_request mt) | None => false end.

Definition f4_ser (es : list eopt) (s : ser) (route : str) (dec : list (Z * dres)) (cb : bool) : bool :=
  match s with
  | SNil => false
  | _ =>
      match resolve es route with
      | Some mt => match decode dec (p_tid (msg_type mt)) with
                   | DOk _ => f4_direct es route cb
                   | DBad => false
                   end
      | None => false
      end
  end.

(* ---- the Dispatch layer: a ServiceRequest arriving at a Service whose dispatcher was made over
   the collections built from [ess] (in that order) ----
   The first collection that resolves the route answers (api.go tryCall); none = "no method".
   Property: a request (rid <> 0) gets EXACTLY ONE response - RspNoMethod when no collection
   resolves the route, an error in every other failure case, what the handler owes otherwise;
   a notification (rid = 0) gets none; the targeted method runs exactly once in the good case and
   nothing runs otherwise; nothing escapes the service as a panic. *)
Definition first_resolving (ess : list (list eopt)) (route : str) : option (list eopt) :=
  find (fun es => match resolve es route with Some _ => true | None => false end) ess.

Definition rsp_eqb (a b : rsp) : bool :=
  match a, b with
  | RspNoMethod, RspNoMethod => true
  | RspDone x, RspDone y => Bool.eqb x y
  | _, _ => false
  end.
Definition rsps_eqb : list rsp -> list rsp -> bool := list_eqb rsp_eqb.

Definition demand_routed (ess : list (list eopt)) (isreq : bool) (route : str)
  (dec : list (Z * dres)) (cx : ctxv) (b : beh) (inv : list ev) (rsps : list rsp) : bool :=
  match first_resolving ess route with
  | None => trace_eqb inv [] && rsps_eqb rsps (if isreq then [RspNoMethod] else [])
  | Some es =>
      match expect_ser es SProto route dec cx with
      | VFail => trace_eqb inv [] && rsps_eqb rsps (if isreq then [RspDone true] else [])
      | VGood mt seen =>
          let i := EvInvoke (m_uid mt) seen in
          if isreq then
            if is_request mt then trace_eqb inv [i] && rsps_eqb rsps (map RspDone (owed_g true b))
            else (trace_eqb inv [] && rsps_eqb rsps [RspDone true])
                 || (trace_eqb inv [i] && (rsps_eqb rsps [RspDone true] || rsps_eqb rsps [RspDone false]))
          else trace_eqb inv [i] && rsps_eqb rsps []
      end
  end.

Definition demand_disp (ess : list (list eopt)) (rid : Z) (route : str) (dec : list (Z * dres))
  (cx : ctxv) (b : beh) (inv : list ev) (rsps : list rsp) (esc : bool) : bool :=
  negb esc &&
  (if is_empty route then trace_eqb inv []   (* no route: not an API call; only "nothing runs, no panic" *)
   else demand_routed ess (negb (rid =? 0)) route dec cx b inv rsps).

Definition spec_disp_keeps (ess : list (list eopt)) (rid : Z) (route : str) (dec : list (Z * dres))
  (cx : ctxv) (b : beh) : option bool :=
  if is_empty route then None
  else match first_resolving ess route with
       | None => None
       | Some es => spec_keeps (expect_ser es SProto route dec cx) (negb (rid =? 0)) b
       end.

Definition f4_disp (ess : list (list eopt)) (rid : Z) (route : str) (dec : list (Z * dres)) : bool :=
  negb (is_empty route) &&
  match first_resolving ess route with
  | None => false
  | Some es => f4_ser es SProto route dec (negb (rid =? 0))
  end.

(* ---- histories: the spec's own state is, per collection, (registered entries, entries at the
   last Build), plus the completion functions kept by handlers - each belonging to ITS call - and the
   position in the history ---- *)
Record scol := SS { ss_reg : list eopt; ss_built : list eopt }.
Record sst := SG { sg_cols : Z -> scol; sg_pend : list pend; sg_pos : Z }.
Definition sinit : sst := SG (fun _ => SS [] []) [] 0.
Definition scol_of (s : sst) (k : Z) : scol := sg_cols s k.
Definition supd (f : Z -> scol) (k : Z) (v : scol) : Z -> scol := fun j => if j =? k then v else f j.

Definition builts (s : sst) (ks : list Z) : list (list eopt) := map (fun k => ss_built (scol_of s k)) ks.

Definition sstep (s : sst) (o : op) : sst :=
  let next cols pend := SG cols pend (sg_pos s + 1) in
  match o with
  | OReg k e op_ =>
      next (supd (sg_cols s) k (SS (ss_reg (scol_of s k) ++ [(e, op_)]) (ss_built (scol_of s k)))) (sg_pend s)
  | OBuild k => next (supd (sg_cols s) k (SS (ss_reg (scol_of s k)) (ss_reg (scol_of s k)))) (sg_pend s)
  | OCallSer k sr r _ dec c cb b =>
      next (sg_cols s)
           (sg_pend s ++ kept (KCall (sg_pos s)) (spec_keeps (expect_ser (ss_built (scol_of s k)) sr r dec c) cb b))
  | OCall k r a c cb b =>
      next (sg_cols s)
           (sg_pend s ++ kept (KCall (sg_pos s)) (spec_keeps (expect_call (ss_built (scol_of s k)) r c a) cb b))
  | ODispatch ks rid r _ dec _ cx b =>
      next (sg_cols s) (sg_pend s ++ kept (KReq rid) (spec_disp_keeps (builts s ks) rid r dec cx b))
  | OFire n kd =>
      if n <? 0 then next (sg_cols s) (sg_pend s)
      else let '(_, _, l) := fire_nth (sg_pend s) (Z.to_nat n) kd in next (sg_cols s) l
  | _ => next (sg_cols s) (sg_pend s)
  end.

Definition fev_eqb (a b : fev) : bool :=
  match a, b with
  | FCall p e, FCall p' e' => Z.eqb p p' && Bool.eqb e e'
  | FRsp r x, FRsp r' x' => Z.eqb r r' && rsp_eqb x x'
  | _, _ => false
  end.
Definition fevs_eqb : list fev -> list fev -> bool := list_eqb fev_eqb.

(* running the n-th kept completion function: it answers ITS OWN call (the recorder of the call at
   that position / the peer's request of that id), with what it is run with, once: nothing when
   that call was already completed; nothing at all when there is no such function *)
Definition demand_fire (s : sst) (n : Z) (kd : fkind) (d : list fev) (esc : bool) : bool :=
  if n <? 0 then fevs_eqb d [] && negb esc
  else let '(d', e', _) := fire_nth (sg_pend s) (Z.to_nat n) kd in fevs_eqb d d' && Bool.eqb esc e'.

Definition op_ok (s : sst) (o : op) (b : obs) : bool :=
  match o, b with
  | OReg _ _ _, BUnit => true
  | OBuild _, BUnit => true
  | OHas k r, BBool x =>
      Bool.eqb x (match resolve (ss_built (scol_of s k)) r with Some _ => true | None => false end)
  | OArgT k r, BArg t =>
      oz_eqb t (match resolve (ss_built (scol_of s k)) r with Some mt => Some (p_tid (msg_type mt)) | None => None end)
  | OCallSer k sr r _ dec c cb bh, BCall tr esc => demand (expect_ser (ss_built (scol_of s k)) sr r dec c) cb bh tr esc
  | OCall k r a c cb bh, BCall tr esc => demand (expect_call (ss_built (scol_of s k)) r c a) cb bh tr esc
  | ODispatch ks rid r _ dec _ cx bh, BDisp inv rsps _ esc =>
      demand_disp (builts s ks) rid r dec cx bh inv rsps esc
  | OFire n kd, BFire d esc => demand_fire s n kd d esc
  | _, _ => false
  end.

Fixpoint monitor_from (s : sst) (ops : list op) (bs : list obs) : bool :=
  match ops, bs with
  | [], [] => true
  | o :: r, b :: br => op_ok s o b && monitor_from (sstep s o) r br
  | _, _ => false
  end.

Definition op_f4 (s : sst) (o : op) : bool :=
  match o with
  | OCallSer k sr r _ dec _ cb _ => f4_ser (ss_built (scol_of s k)) sr r dec cb
  | OCall k r _ _ cb _ => f4_direct (ss_built (scol_of s k)) r cb
  | ODispatch ks rid r _ dec _ _ _ => f4_disp (builts s ks) rid r dec
  | _ => false
  end.

Fixpoint has_f4_from (s : sst) (ops : list op) : bool :=
  match ops with
  | [] => false
  | o :: r => op_f4 s o || has_f4_from (sstep s o) r
  end.

Definition holds (ops : list op) (bs : list obs) : Prop := monitor_from sinit ops bs = true.
Definition has_f4 (ops : list op) : bool := has_f4_from sinit ops.
