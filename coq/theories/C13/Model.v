(* C13 - model of apimapper: DefaultFormater.IsValidMethod, APIContainer (NewContainer,
   suitableHandlerMethods, ExtractHandler, CallMethod, SafeCall), APICollection (Register,
   Build, newService, splitRoute, GetArgType, HasMethod, Call) and CallWithSerialize.
   No proofs in this file.

   The model is of the code WITH the once-guard of APIContainer.CallMethod (F11: the completion
   function of a request call completes its caller at most once; hooks/C13-fix-once-guard*.patch)
   and WITHOUT any repair of F4 (a completion function
   passed to a notify-shaped method: CallMethod logs and returns) - the existing test
   apientry.TestCall pins that behaviour.

   Go -> model:
     string                      str = list Z (bytes); strings.Split(_, ".") = split_dot
     reflect.Method              meth: name, exported?, the parameter list WITHOUT the receiver
                                 (NumIn = 1 + length); every parameter type is a descriptor
                                 {Kind = Ptr?, Implements(IContext)?, Kind = Func?, "a HandlerCBFunc
                                 value is assignable to it"?, type identity token}
     typ.Method(0..NumMethod-1)  e_meths, in reflect's order
     map[string]*Handler / map[string]*APIContainer
                                 association lists with shadowing (the entry added last wins);
                                 iteration order is never observable
     options.nameFunc            o_nf : option (str -> str) - any function
     payload + serializer        the op carries, for every message type token, what
                                 serializer.Unmarshal answers (dres); bytes are carried but opaque
     handler code                a behaviour enum (beh) selected per call
     panics                      reflect.Call argument mismatch, a handler panic and calling a nil
                                 completion function are explicit [panics] flags consumed by
                                 SafeCall's recover; a panic OUTSIDE SafeCall is [Escaped] *)
From Coq Require Export Strings.Byte.
From Cell2V Require Import Common.Tac Common.ListX.

Definition str := list Z.
Definition str_eqb : str -> str -> bool := zlist_eqb.

(* In case files a string is written (B [x67; x2e; ...]) with the 256 constructors of Coq.Init.Byte
   (parsing a constructor name is an order of magnitude cheaper than parsing a numeral). *)
Definition B (l : list Byte.byte) : str := map (fun b => Z.of_N (Byte.to_N b)) l.

(* ---- string-keyed maps: newest binding first ---- *)
Definition smap (V : Type) := list (str * V).
Fixpoint sget {V} (k : str) (m : smap V) : option V :=
  match m with
  | [] => None
  | (k', v) :: r => if str_eqb k k' then Some v else sget k r
  end.
Definition sset {V} (k : str) (v : V) (m : smap V) : smap V := (k, v) :: m.

(* ---- descriptors ---- *)
Record param := P {
  p_ptr : bool;      (* t.Kind() == reflect.Ptr *)
  p_ctx : bool;      (* t.Implements(api.TypeOfContext) *)
  p_func : bool;     (* t.Kind() == reflect.Func *)
  p_cbfit : bool;    (* reflect.TypeOf(HandlerCBFunc(nil)).AssignableTo(t) *)
  p_tid : Z          (* identity of the type *)
}.

Record meth := M {
  m_uid : Z;            (* identity of the method (for invocation records) *)
  m_name : str;
  m_exported : bool;    (* method.PkgPath == "" *)
  m_ins : list param    (* In(1) .. In(NumIn-1) *)
}.

Record entry := E {
  e_zid : Z;            (* which Go value the harness registers *)
  e_tname : str;        (* reflect.Indirect(receiver).Type().Name() *)
  e_meths : list meth
}.

Record opts := O {
  o_group : str;                  (* WithGroupName / WithName / WithInnerGroupName; [] = unset *)
  o_nf : option (str -> str)      (* WithNameFunc *)
}.

(* naming functions the harness uses (any function is allowed in the theorems) *)
Definition lower_c (c : Z) : Z := if (65 <=? c) && (c <=? 90) then c + 32 else c.
Definition upper_c (c : Z) : Z := if (97 <=? c) && (c <=? 122) then c - 32 else c.
Definition nf_lower (s : str) : str := map lower_c s.             (* strings.ToLower, ASCII *)
Definition nf_upper (s : str) : str := map upper_c s.             (* strings.ToUpper, ASCII *)
Definition nf_camel (s : str) : str :=                            (* apientry.ToLowerCamelCase *)
  match s with [] => [] | c :: r => lower_c c :: r end.
Definition nf_const (k s : str) : str := k.                       (* func(string) string { return k } *)
Definition nf_prefix (k s : str) : str := k ++ s.                 (* func(s) { return k + s } *)

Definition rename (nf : option (str -> str)) (s : str) : str :=
  match nf with Some f => f s | None => s end.

(* ---- formater.DefaultFormater ---- *)
Definition num_in (m : meth) : Z := 1 + Z.of_nat (length (m_ins m)).
Definition dflt_param : param := P false false false false 0.
Definition in_ (m : meth) (i : nat) : param := nth (pred i) (m_ins m) dflt_param.   (* mt.In(i), i >= 1 *)

Definition is_valid_request (m : meth) : bool :=
  if negb (m_exported m) then false                                  (* method.PkgPath != "" *)
  else if negb (num_in m =? 4) then false                            (* mt.NumIn() != 4 *)
  else if negb (p_ptr (in_ m 1)) || negb (p_ctx (in_ m 1)) then false (* t1.Kind() != Ptr || !t1.Implements *)
  else if negb (p_ptr (in_ m 2)) then false                          (* mt.In(2).Kind() != Ptr *)
  else if negb (p_func (in_ m 3)) then false                         (* mt.In(3).Kind() != Func *)
  else true.

Definition is_valid_notify (m : meth) : bool :=
  if negb (m_exported m) then false
  else if negb (num_in m =? 3) then false
  else if negb (p_ptr (in_ m 1)) || negb (p_ctx (in_ m 1)) then false
  else if negb (p_ptr (in_ m 2)) then false
  else true.

Definition is_valid (m : meth) : bool := is_valid_request m || is_valid_notify m.

(* ---- APIContainer ---- *)
Record handler := H {
  h_meth : meth;
  h_ctx : param;     (* ContextType: mt.In(1) *)
  h_arg : param;     (* ArgType:     mt.In(2) *)
  h_req : bool       (* IsRequest:   mt.NumIn() == 4 *)
}.

Definition mk_handler (m : meth) : handler := H m (in_ m 1) (in_ m 2) (num_in m =? 4).

Record container := C {
  c_name : str;
  c_zid : Z;
  c_handlers : smap handler
}.

(* suitableHandlerMethods: for m := 0; m < typ.NumMethod(); m++ { ... methods[mn] = ... } *)
Fixpoint suitable (nf : option (str -> str)) (ms : list meth) (acc : smap handler) : smap handler :=
  match ms with
  | [] => acc
  | m :: r =>
      let mn := rename nf (m_name m) in
      suitable nf r (if is_valid m then sset mn (mk_handler m) acc else acc)
  end.

(* utils.isExported: unicode.IsUpper of the first rune.  Modelled exactly for names whose first rune is
   ASCII, or a two-byte UTF-8 rune of the Latin-1 capitals (U+00C0..U+00DE without the multiplication
   sign U+00D7) or the basic Greek capitals (U+0391..U+03A9 without the unassigned U+03A2); every other
   first rune counts as "not upper case" here and is outside what the harness registers. *)
Definition upper_rune2 (c d : Z) : bool :=
  if (194 <=? c) && (c <=? 223) && (128 <=? d) && (d <=? 191) then
    let r := (c - 192) * 64 + (d - 128) in
    ((192 <=? r) && (r <=? 222) && negb (r =? 215)) || ((913 <=? r) && (r <=? 937) && negb (r =? 930))
  else false.
Definition is_exported_name (s : str) : bool :=
  match s with
  | c :: r =>
      if c <? 128 then (65 <=? c) && (c <=? 90)
      else match r with d :: _ => upper_rune2 c d | [] => false end
  | [] => false
  end.

Definition is_empty {A} (l : list A) : bool := match l with [] => true | _ => false end.

(* NewContainer: the group name *)
Definition group_name (e : entry) (o : opts) : str :=
  if negb (is_empty (o_group o)) then o_group o else rename (o_nf o) (e_tname e).

(* ExtractHandler: None = it returned an error *)
Definition extract (e : entry) (o : opts) : option (smap handler) :=
  if is_empty (e_tname e) then None
  else if negb (is_exported_name (e_tname e)) then None
  else
    let hs := suitable (o_nf o) (e_meths e) [] in
    if is_empty hs then None else Some hs.

(* APICollection.newService; an error is logged and the entry skipped *)
Definition new_service (cs : smap container) (eo : entry * opts) : smap container :=
  let '(e, o) := eo in
  let name := group_name e o in
  match sget name cs with
  | Some _ => cs                                   (* "service already defined" *)
  | None =>
      match extract e o with
      | None => cs
      | Some hs => sset name (C name (e_zid e) hs) cs
      end
  end.

Definition build (es : list (entry * opts)) : smap container := fold_left new_service es [].

(* ---- routes ---- *)
Definition dot : Z := 46.
Definition inner_group : str := [95].   (* InnerGroupName = "_" *)

Fixpoint split_dot (s : str) : list str :=     (* strings.Split(s, ".") *)
  match s with
  | [] => [[]]
  | c :: r =>
      if c =? dot then [] :: split_dot r
      else match split_dot r with
           | h :: t => (c :: h) :: t
           | [] => [[c]]
           end
  end.

Definition split_route (route : str) : option (str * str) :=
  match split_dot route with
  | [a; b] => Some (a, b)
  | [a] => Some (inner_group, a)
  | _ => None
  end.

Definition find_handler (cs : smap container) (route : str) : option handler :=
  match split_route route with
  | None => None
  | Some (g, m) =>
      match sget g cs with
      | None => None
      | Some c => sget m (c_handlers c)
      end
  end.

Definition get_arg_type (cs : smap container) (route : str) : option param :=
  match find_handler cs route with Some h => Some (h_arg h) | None => None end.

Definition has_method (cs : smap container) (route : str) : bool :=
  match get_arg_type cs route with Some _ => true | None => false end.

(* ---- the call machine ---- *)
Inductive beh :=
| BOk         (* completes without error, returns *)
| BErr        (* completes with an error, returns *)
| BPanic      (* panics before completing *)
| BOkPanic    (* completes without error, then panics *)
| BNever      (* returns without completing *)
| BTwice      (* completes twice, returns *)
| BOkBad      (* completes without error but with a result that cannot be serialised, returns *)
| BDefer      (* keeps the completion function for later, returns without completing *)
| BOkDefer    (* completes without error, keeps the completion function as well, returns *)
| BDeferPanic   (* keeps the completion function, then panics *)
| BPanicWith (v : Z).  (* panics before completing, with the v-th kind of panic value (a string, an error,
                         a runtime error, an error whose Error() itself panics, nil, ...) *)

Inductive ser := SJson | SProto | SNil.
(* serializer.Unmarshal of THIS call's payload into a FRESH value of a type: the token of the value
   it yields, or an error.  Value tokens: the harness numbers the distinct canonical renderings
   (every field) of the message values that occur in a case; equal token <-> equal value. *)
Inductive dres := DOk (v : Z) | DBad.
Inductive ctxv := CNil | CTyp (tid : Z).     (* the IContext value passed by the caller *)
(* the message passed to APICollection.Call: its type, how the harness builds it (opaque here) and
   the token of its VALUE (a canonical rendering of all its fields) *)
Inductive argv := ANil | AVal (tid recipe v : Z).

Inductive ev :=
| EvInvoke (uid : Z) (seen : option Z)   (* the method ran; the token of the message value it was given
                                            (all fields), None = a nil message *)
| EvComplete (err : bool).               (* the caller's completion function ran *)

Inductive res :=
| Done (tr : list ev)
| Escaped (tr : list ev).                (* a panic left the call *)

Definition decode (dec : list (Z * dres)) (tid : Z) : dres :=
  match find (fun kv => fst kv =? tid) dec with Some kv => snd kv | None => DBad end.

(* CheckInvokeCBFunc(cbFunc, err, nil) *)
Definition check_invoke (cb : bool) (err : bool) : list ev := if cb then [EvComplete err] else [].

(* what the code of a request handler does with the completion function it is given:
   (completions it attempts, in order, as (error?, result cannot be serialised?); does it then panic) *)
Definition req_script (b : beh) : list (bool * bool) * bool :=
  match b with
  | BOk => ([(false, false)], false)
  | BErr => ([(true, false)], false)
  | BPanic => ([], true)
  | BOkPanic => ([(false, false)], true)
  | BNever => ([], false)
  | BTwice => ([(false, false); (false, false)], false)
  | BOkBad => ([(false, true)], false)
  | BDefer => ([], false)
  | BOkDefer => ([(false, false)], false)
  | BDeferPanic => ([], true)
  | BPanicWith _ => ([], true)
  end.

(* does the handler keep the completion function it was given (to run it after it returned)?
   Some g: it does, and g is the state the once-guard is left in when the call is over (consumed by
   a completion of the handler itself, or by the recover's "panic in rpc") *)
Definition keeps (b : beh) : option bool :=
  match b with
  | BDefer => Some false
  | BOkDefer | BDeferPanic => Some true
  | _ => None
  end.

Definition notify_panics (b : beh) : bool :=
  match b with BPanic | BOkPanic | BDeferPanic | BPanicWith _ => true | _ => false end.

Definition seen_of (a : argv) : option Z := match a with ANil => None | AVal _ _ v => Some v end.

Definition ctx_fits (t : param) (c : ctxv) : bool :=      (* reflect.Call's assignability check *)
  match c with CNil => true | CTyp tid => tid =? p_tid t end.
Definition arg_fits (t : param) (a : argv) : bool :=
  match a with ANil => true | AVal tid _ _ => tid =? p_tid t end.

(* The completion function as the handler sees it: onceCBFunc(cbFunc).  [rp] = the caller's cbFunc
   panics when handed (nil error, a result that cannot be serialised) - true for APIDispatcher's
   closure (Service.Response panics on remote.Serialize's error), false for a plain recorder.
   An attempt is skipped once a completion went through; an attempt in which cbFunc panics
   re-arms the guard (cbFunc did not complete its caller) and the panic leaves the handler.
   Result: (completions that ran, guard state, did a panic leave the handler). *)
Fixpoint run_attempts (rp : bool) (done : bool) (atts : list (bool * bool))
  : list ev * bool * bool :=
  match atts with
  | [] => ([], done, false)
  | (e, bad) :: r =>
      if done then run_attempts rp done r
      else if rp && negb e && bad then ([], false, true)
      else let '(evs, d, p) := run_attempts rp true r in (EvComplete e :: evs, d, p)
  end.

(* handler.Method.Func.Call(args) under SafeCall's deferred recover.
   [cb] = the caller passed a completion function. *)
Definition safe_call_g (rp : bool) (h : handler) (c : ctxv) (a : argv) (cb : bool) (b : beh)
  : list ev :=
  let m := h_meth h in
  if h_req h then
    if ctx_fits (h_ctx h) c && arg_fits (h_arg h) a && p_cbfit (in_ m 3) then
      let '(attempts, panics) := req_script b in
      if cb then
        let '(evs, done, p) := run_attempts rp false attempts in
        (* recover: CheckInvokeCBFunc(guarded cbFunc, "panic in rpc") *)
        EvInvoke (m_uid m) (seen_of a)
          :: evs ++ (if (p || panics) && negb done then [EvComplete true] else [])
      else
        (* the handler holds a nil func: its first attempt panics; recover; nothing to complete *)
        [EvInvoke (m_uid m) (seen_of a)]
    else
      (* reflect: Call using X as type Y - panics before the method runs; recover completes *)
      check_invoke cb true
  else
    if ctx_fits (h_ctx h) c && arg_fits (h_arg h) a then
      [EvInvoke (m_uid m) (seen_of a)]      (* a panic of the method is recovered; cbFunc is nil here *)
    else [].                                (* reflect.Call panics, recovered, nothing to complete *)

(* APIContainer.CallMethod *)
Definition call_method_g (rp : bool) (cn : container) (method : str) (c : ctxv) (a : argv)
  (cb : bool) (b : beh) : list ev :=
  match sget method (c_handlers cn) with
  | None => check_invoke cb true                       (* "can not find method" *)
  | Some h =>
      if h_req h then safe_call_g rp h c a cb b
      else if cb then []                               (* "call notify with cb": log, return  (F4) *)
      else safe_call_g rp h c a cb b
  end.

(* APICollection.Call *)
Definition call_g (rp : bool) (cs : smap container) (route : str) (c : ctxv) (a : argv) (cb : bool)
  (b : beh) : list ev :=
  match split_route route with
  | None => check_invoke cb true                       (* "bat route" *)
  | Some (g, m) =>
      match sget g cs with
      | None => check_invoke cb true                   (* "can not find service" *)
      | Some cn => call_method_g rp cn m c a cb b
      end
  end.

(* CallWithSerialize *)
Definition call_ser_g (rp : bool) (cs : smap container) (s : ser) (route : str)
  (dec : list (Z * dres)) (c : ctxv) (cb : bool) (b : beh) : res :=
  match s with
  | SNil => Done (check_invoke cb true)                (* "serializer is nil" *)
  | _ =>
      match get_arg_type cs route with
      | None => Done (check_invoke cb true)            (* "no method" *)
      | Some t =>
          if negb (p_ptr t) then Escaped []            (* argType.Elem() panics for a non-pointer *)
          else
            match decode dec (p_tid t) with
            | DBad => Done (check_invoke cb true)      (* Unmarshal error *)
            | DOk v => Done (call_g rp cs route c (AVal (p_tid t) 0 v) cb b)
            end
      end
  end.

(* The completion function a call leaves behind in a handler (the same path, looking only at that):
   a request-shaped method was reached with a completion function, reflect accepted the arguments,
   and the handler keeps what it was given - i.e. onceCBFunc(cbFunc) of THIS call. *)
Definition call_keeps (cs : smap container) (route : str) (c : ctxv) (a : argv) (cb : bool) (b : beh)
  : option bool :=
  match find_handler cs route with
  | Some h =>
      if h_req h && cb && ctx_fits (h_ctx h) c && arg_fits (h_arg h) a && p_cbfit (in_ (h_meth h) 3)
      then keeps b else None
  | None => None
  end.

Definition call_ser_keeps (cs : smap container) (s : ser) (route : str) (dec : list (Z * dres))
  (c : ctxv) (cb : bool) (b : beh) : option bool :=
  match s with
  | SNil => None
  | _ =>
      match get_arg_type cs route with
      | None => None
      | Some t =>
          if negb (p_ptr t) then None
          else match decode dec (p_tid t) with
               | DBad => None
               | DOk v => call_keeps cs route c (AVal (p_tid t) 0 v) cb b
               end
      end
  end.

(* callers whose completion function never panics (the harness's recorder) *)
Definition safe_call := safe_call_g false.
Definition call_method := call_method_g false.
Definition call := call_g false.
Definition call_ser := call_ser_g false.

(* ---- actorex/service: Service.handleRequest + APIDispatcher.Dispatch / tryCall / tryCallCol ----
   (service.go with hooks/C13-fix-request-deserialize.patch: a request whose body does not
   deserialise is answered with an error - unless Dispatch has already answered it - instead of
   panicking out of the actor) *)
Inductive rsp :=
| RspNoMethod               (* ServiceResponse{ErrCode: CodeErrString, ErrInfo: "no method: ..."} *)
| RspDone (err : bool).     (* the response the completion closure sends *)

Record dout := DO {
  d_inv : list ev;          (* zoo methods that ran *)
  d_rsp : list rsp;         (* responses sent to request.Sender, in order *)
  d_fell : bool;            (* the request reached reqReceiver.ReceiveRequest *)
  d_esc : bool              (* a panic left Service.Receive (the actor fails) *)
}.

Fixpoint only_inv (tr : list ev) : list ev :=
  match tr with
  | [] => []
  | EvInvoke u s :: r => EvInvoke u s :: only_inv r
  | EvComplete _ :: r => only_inv r
  end.

Fixpoint rsp_of (tr : list ev) : list rsp :=
  match tr with
  | [] => []
  | EvInvoke _ _ :: r => rsp_of r
  | EvComplete e :: r => RspDone e :: rsp_of r
  end.

(* tryCall: the first collection that has the route gets the call (proto serializer, the
   dispatcher's RemoteContext); a notification (ReqId 0) is called without completion function *)
Definition try_call (cols : list (smap container)) (isreq : bool) (route : str)
  (dec : list (Z * dres)) (cx : ctxv) (b : beh) : option res :=
  match find (fun cs => has_method cs route) cols with
  | None => None
  | Some cs => Some (call_ser_g true cs SProto route dec cx isreq b)
  end.

Definition dispatch_keeps (cols : list (smap container)) (rid : Z) (route : str)
  (dec : list (Z * dres)) (cx : ctxv) (b : beh) : option bool :=
  if is_empty route then None
  else match find (fun cs => has_method cs route) cols with
       | None => None
       | Some cs => call_ser_keeps cs SProto route dec cx (negb (rid =? 0)) b
       end.

Definition handle_request (cols : list (smap container)) (rid : Z) (route : str)
  (dec : list (Z * dres)) (rawok : bool) (cx : ctxv) (b : beh) : dout :=
  let isreq := negb (rid =? 0) in                       (* NotifyReqID = 0 *)
  (* remote.Deserialize(Body, Type); reqReceiver.ReceiveRequest *)
  let fall (answered : bool) (rsps : list rsp) :=
    if rawok then DO [] rsps true false
    else DO [] (rsps ++ (if isreq && negb answered then [RspDone true] else [])) false false in
  if is_empty route then fall false []                  (* request.Route == "": not dispatched *)
  else
    match try_call cols isreq route dec cx b with
    | None => fall true (if isreq then [RspNoMethod] else [])   (* Dispatch: Response("no method"), false *)
    | Some (Done tr) => DO (only_inv tr) (rsp_of tr) false false
    | Some (Escaped tr) => DO (only_inv tr) (rsp_of tr) false true
    end.

(* ---- histories ----
   Several collections (index k); a dispatcher is made over the listed ones, in that order.
   Completion functions kept by handlers are numbered in the order they were kept; OFire runs one
   of them later - in any order, any number of times, interleaved with further calls. *)
Inductive fkind := FOk | FErr | FBad.   (* run it with: a result / an error / a result that cannot be serialised *)

Inductive op :=
| OReg (k : Z) (e : entry) (o : opts)         (* col[k].Register(entry, options...) *)
| OBuild (k : Z)                              (* col[k].Build() *)
| OHas (k : Z) (route : str)                  (* col[k].HasMethod(route) *)
| OArgT (k : Z) (route : str)                 (* col[k].GetArgType(route) *)
| OCallSer (k : Z) (s : ser) (route : str) (bytes : list Z) (dec : list (Z * dres))
           (c : ctxv) (cb : bool) (b : beh)   (* CallWithSerialize(col[k], ctx, route, bytes, cb, s) *)
| OCall (k : Z) (route : str) (a : argv) (c : ctxv) (cb : bool) (b : beh)   (* col[k].Call(ctx, route, arg, cb) *)
| ODispatch (ks : list Z) (rid : Z) (route : str) (bytes : list Z) (dec : list (Z * dres))
            (rawok : bool) (cx : ctxv) (b : beh)
  (* a Service with THE dispatcher over col[ks] (one dispatcher per distinct ks, reused) receives
     ServiceRequest{Sender: peer, ReqId: rid, Route: route, Type: TestHello, Body: bytes};
     dec = what the proto serializer makes of the body per message type; rawok =
     remote.Deserialize(Body, Type) succeeds; cx = the dispatcher's *RemoteContext *)
| OFire (n : Z) (kd : fkind).                 (* the n-th kept completion function is run (0-based) *)

(* whom a kept completion function belongs to: the call at position pos of the history (the
   harness's recorder of that call), or the request rid of the peer *)
Inductive caller := KCall (pos : Z) | KReq (rid : Z).

Record pend := PD { pd_who : caller; pd_done : bool (* once-guard consumed *) }.

Inductive fev :=
| FCall (pos : Z) (err : bool)      (* the completion function of the call at pos ran *)
| FRsp (rid : Z) (r : rsp).         (* the peer received a response for request rid *)

Inductive obs :=
| BUnit
| BBool (b : bool)
| BArg (t : option Z)             (* type token of the reflect.Type returned, None = nil *)
| BCall (tr : list ev) (escaped : bool)
| BDisp (inv : list ev) (rsps : list rsp) (fell : bool) (escaped : bool)
| BFire (delivered : list fev) (escaped : bool).

Record cst := S {
  s_entries : list (entry * opts);     (* APIEntries.entries *)
  s_cs : smap container                (* APICollection.Containers *)
}.

Record st := G {
  g_cols : Z -> cst;
  g_pend : list pend;     (* completion functions kept by handlers, oldest first *)
  g_pos : Z               (* number of operations so far *)
}.

Definition init : st := G (fun _ => S [] []) [] 0.
Definition col (s : st) (k : Z) : cst := g_cols s k.
Definition upd (f : Z -> cst) (k : Z) (v : cst) : Z -> cst := fun j => if j =? k then v else f j.

Definition obs_of_res (r : res) : obs :=
  match r with Done tr => BCall tr false | Escaped tr => BCall tr true end.

Definition obs_of_dout (d : dout) : obs := BDisp (d_inv d) (d_rsp d) (d_fell d) (d_esc d).

Definition kept (who : caller) (k : option bool) : list pend :=
  match k with Some g => [PD who g] | None => [] end.

(* running a kept completion function = onceCBFunc(cbFunc) of its own call:
   nothing when the guard is consumed; otherwise the call's own cbFunc runs - the recorder of that
   call, or the dispatcher's closure answering THAT request through Service.Response, which panics
   on a result it cannot serialise (the guard is re-armed, the panic reaches whoever ran it) *)
Definition fire_one (p : pend) (kd : fkind) : list fev * bool * pend :=
  if pd_done p then ([], false, p)
  else
    let err := match kd with FErr => true | _ => false end in
    match pd_who p, kd with
    | KReq _, FBad => ([], true, p)
    | KReq rid, _ => ([FRsp rid (RspDone err)], false, PD (pd_who p) true)
    | KCall pos, _ => ([FCall pos err], false, PD (pd_who p) true)
    end.

Fixpoint fire_nth (l : list pend) (n : nat) (kd : fkind) : list fev * bool * list pend :=
  match l, n with
  | [], _ => ([], false, [])
  | p :: r, Datatypes.O => let '(d, e, p') := fire_one p kd in (d, e, p' :: r)
  | p :: r, Datatypes.S m => let '(d, e, r') := fire_nth r m kd in (d, e, p :: r')
  end.

Definition tables (s : st) (ks : list Z) : list (smap container) := map (fun k => s_cs (col s k)) ks.

(* what an operation changes: the collections (Register / Build) and the kept completion functions *)
Definition step (s : st) (o : op) : st * obs :=
  let next cols pend := G cols pend (g_pos s + 1) in
  match o with
  | OReg k e op_ =>
      (next (upd (g_cols s) k (S (s_entries (col s k) ++ [(e, op_)]) (s_cs (col s k)))) (g_pend s), BUnit)
  | OBuild k =>
      (next (upd (g_cols s) k (S (s_entries (col s k)) (build (s_entries (col s k))))) (g_pend s), BUnit)
  | OHas k r => (next (g_cols s) (g_pend s), BBool (has_method (s_cs (col s k)) r))
  | OArgT k r =>
      (next (g_cols s) (g_pend s),
       BArg (match get_arg_type (s_cs (col s k)) r with Some t => Some (p_tid t) | None => None end))
  | OCallSer k sr r _ dec c cb b =>
      (next (g_cols s)
            (g_pend s ++ kept (KCall (g_pos s)) (call_ser_keeps (s_cs (col s k)) sr r dec c cb b)),
       obs_of_res (call_ser (s_cs (col s k)) sr r dec c cb b))
  | OCall k r a c cb b =>
      (next (g_cols s) (g_pend s ++ kept (KCall (g_pos s)) (call_keeps (s_cs (col s k)) r c a cb b)),
       BCall (call (s_cs (col s k)) r c a cb b) false)
  | ODispatch ks rid r _ dec rawok cx b =>
      (next (g_cols s) (g_pend s ++ kept (KReq rid) (dispatch_keeps (tables s ks) rid r dec cx b)),
       obs_of_dout (handle_request (tables s ks) rid r dec rawok cx b))
  | OFire n kd =>
      if n <? 0 then (next (g_cols s) (g_pend s), BFire [] false)
      else let '(d, e, l) := fire_nth (g_pend s) (Z.to_nat n) kd in
           (next (g_cols s) l, BFire d e)
  end.

Fixpoint run_from (s : st) (ops : list op) : st * list obs :=
  match ops with
  | [] => (s, [])
  | o :: r =>
      let '(s1, b) := step s o in
      let '(s2, bs) := run_from s1 r in
      (s2, b :: bs)
  end.

Definition run (ops : list op) : list obs := snd (run_from init ops).
Definition final (ops : list op) : st := fst (run_from init ops).
