(* C13 - property theorems only.  Each is closed by [exact] of a lemma from Proofs.v and
   followed by Print Assumptions.  [es] ranges over ALL lists of (entry descriptor, options);
   options contain an ARBITRARY naming function; routes are arbitrary byte strings. *)
From Cell2V Require Import Common.Tac Common.ListX C13.Model C13.Spec C13.Proofs.

(* IsValidMethod, transcribed line by line, accepts exactly the handler shape of the property *)
Theorem C13_shape : forall m, is_valid m = true <-> handler_shape m.
Proof. exact is_valid_spec. Qed.
Print Assumptions C13_shape.

(* exposure: HasMethod(route) on the tables Build() makes is true iff the route is group.method
   (or method, inner group) of a handler-shaped method of the entry owning the group, after
   renaming - and nothing else *)
Theorem C13_exposure : forall es route, has_method (build es) route = true <-> exposed es route.
Proof. exact exposure. Qed.
Print Assumptions C13_exposure.

(* routes: only group.method (exactly one dot) or method (no dot, inner group) can reach anything,
   whatever names - with dots, with empty segments - are registered; everything else resolves to
   nothing (so it is not exposed, and calling it completes with an error: C13_call_ser_trace) *)
Theorem C13_malformed_never_resolves : forall es route,
  (2 < length (split_dot route))%nat -> resolve es route = None.
Proof. exact malformed_never_resolves. Qed.
Print Assumptions C13_malformed_never_resolves.

Theorem C13_resolves_one_dot : forall es route mt,
  resolve es route = Some mt ->
  exists g m, (split_dot route = [g; m] \/ (split_dot route = [m] /\ g = inner_group)) /\
              split_route route = Some (g, m).
Proof. exact resolves_one_dot. Qed.
Print Assumptions C13_resolves_one_dot.

(* the whole table: looking a route up in Build()'s maps = the declarative resolution *)
Theorem C13_table : forall es route,
  find_handler (build es) route = option_map mk_handler (resolve es route).
Proof. exact find_handler_resolve. Qed.
Print Assumptions C13_table.

Theorem C13_resolve_targets : forall es route mt, resolve es route = Some mt <-> targets es route mt.
Proof. exact resolve_targets. Qed.
Print Assumptions C13_resolve_targets.

(* a group has one owner, a name selects one method; with a naming function that is injective
   on the entry's handler-shaped methods every answering method is the selected one *)
Theorem C13_owner_unique : forall es g eo1 eo2, owns es g eo1 -> owns es g eo2 -> eo1 = eo2.
Proof. exact owns_functional. Qed.
Print Assumptions C13_owner_unique.

Theorem C13_selects_unique : forall eo m mt1 mt2, selects eo m mt1 -> selects eo m mt2 -> mt1 = mt2.
Proof. exact selects_functional. Qed.
Print Assumptions C13_selects_unique.

Theorem C13_selects_injective : forall eo m mt,
  (forall x y, In x (e_meths (fst eo)) -> In y (e_meths (fst eo)) ->
               handler_shape x -> handler_shape y -> new_name eo x = new_name eo y -> x = y) ->
  answers eo m mt -> selects eo m mt.
Proof. exact answers_selects. Qed.
Print Assumptions C13_selects_injective.

(* ---- rejected registrations leave the collection exactly as it was ----
   (rejected = group name already taken in the tables so far, or refused by ExtractHandler:
   unnamed / unexported type, no handler-shaped method) *)
Theorem C13_rejected_spec : forall pre eo,
  rejected (build pre) eo = true <->
  (exists w, owns pre (spec_group eo) w) \/ ~ servable eo.
Proof. exact rejected_spec. Qed.
Print Assumptions C13_rejected_spec.

(* one step of Build(): the tables are untouched *)
Theorem C13_rejected_step_frame : forall cs eo, rejected cs eo = true -> new_service cs eo = cs.
Proof. exact new_service_rejected. Qed.
Print Assumptions C13_rejected_step_frame.

(* wherever it stands among the registrations, whatever follows it *)
Theorem C13_rejected_frame : forall pre eo post,
  rejected (build pre) eo = true -> build (pre ++ eo :: post) = build (pre ++ post).
Proof. exact rejected_frame. Qed.
Print Assumptions C13_rejected_frame.

(* so the tables, and what every route resolves to, depend on the accepted registrations only *)
Theorem C13_build_accepted : forall es, build es = build (accepted es).
Proof. exact build_accepted. Qed.
Print Assumptions C13_build_accepted.

Theorem C13_resolve_accepted : forall es route, resolve es route = resolve (accepted es) route.
Proof. exact resolve_accepted. Qed.
Print Assumptions C13_resolve_accepted.

(* history level: a Register that is rejected with respect to what its collection has registered
   so far is a no-op: every later observation - whatever is registered, built, queried, called,
   dispatched or completed afterwards - is what it is when a plain query stands in its place *)
Theorem C13_rejected_registration_leaves_no_trace : forall h1 k e o h2,
  rejected (build (s_entries (col (final h1) k))) (e, o) = true ->
  skipn (Datatypes.S (length h1)) (run (h1 ++ OReg k e o :: h2)) =
  skipn (Datatypes.S (length h1)) (run (h1 ++ OHas k [] :: h2)).
Proof. exact rejected_registration_leaves_no_trace. Qed.
Print Assumptions C13_rejected_registration_leaves_no_trace.

(* GetArgType is the DECLARED message type of the targeted method (what the payload is decoded into) *)
Theorem C13_decode_type : forall es route,
  get_arg_type (build es) route = option_map msg_type (resolve es route).
Proof. exact get_arg_type_resolve. Qed.
Print Assumptions C13_decode_type.

(* master equations: outside F4 the complete event trace of a call is the expected one *)
Theorem C13_call_ser_trace : forall es s route dec c cb b,
  f4_ser es s route dec cb = false ->
  call_ser (build es) s route dec c cb b = Done (expected_trace (expect_ser es s route dec c) cb b).
Proof. exact call_ser_trace. Qed.
Print Assumptions C13_call_ser_trace.

Theorem C13_call_trace : forall es route c a cb b,
  f4_direct es route cb = false ->
  call (build es) route c a cb b = expected_trace (expect_call es route c a) cb b.
Proof. exact call_trace. Qed.
Print Assumptions C13_call_trace.

(* good route + decodable payload + arguments the signature takes: the targeted method runs
   exactly once, with the value (token of all fields) that THIS call's payload decodes to, into a
   fresh value of the method's own declared message type *)
Theorem C13_invoked_once : forall es s route dec c cb b mt seen,
  f4_ser es s route dec cb = false ->
  expect_ser es s route dec c = VGood mt seen ->
  exists tr v, call_ser (build es) s route dec c cb b = Done tr /\
    invocations tr = [(m_uid mt, Some v)] /\ seen = Some v /\
    targets es route mt /\ decode dec (p_tid (msg_type mt)) = DOk v.
Proof. exact invoked_once. Qed.
Print Assumptions C13_invoked_once.

(* frame: queries and calls leave no trace - whatever was called before, with whatever payloads,
   every operation observes the same; and a good call after ANY history and ANY further calls
   runs its target with the value THIS call's payload decodes to into a fresh value *)
Theorem C13_call_frame : forall h cs o,
  forallb is_query cs = true -> is_fire o = false -> obs_at (h ++ cs) o = obs_at h o.
Proof. exact call_frame. Qed.
Print Assumptions C13_call_frame.

Theorem C13_run_snoc : forall h o, run (h ++ [o]) = run h ++ [obs_at h o].
Proof. exact run_snoc. Qed.
Print Assumptions C13_run_snoc.

Theorem C13_invoked_with_own_payload : forall h cs k s route bytes dec c cb b mt seen,
  forallb is_query cs = true ->
  f4_ser (ss_built (scol_of (sfinal h) k)) s route dec cb = false ->
  expect_ser (ss_built (scol_of (sfinal h) k)) s route dec c = VGood mt seen ->
  exists v, decode dec (p_tid (msg_type mt)) = DOk v /\
    obs_at (h ++ cs) (OCallSer k s route bytes dec c cb b) =
    BCall (EvInvoke (m_uid mt) (Some v) ::
           (if cb && is_request mt then map EvComplete (owed b) else [])) false.
Proof. exact invoked_with_own_payload. Qed.
Print Assumptions C13_invoked_with_own_payload.

(* every failure case: no method runs at all (with or without F4) *)
Theorem C13_not_invoked_otherwise : forall es s route dec c cb b,
  expect_ser es s route dec c = VFail ->
  exists tr, call_ser (build es) s route dec c cb b = Done tr /\ invocations tr = [].
Proof. exact not_invoked. Qed.
Print Assumptions C13_not_invoked_otherwise.

(* completion, partial: for every call with a completion function that is not "good route and
   payload addressed to a notify-shaped method" the completions are: [error] in every failure
   case, and what the handler owes otherwise (one, also when it completes twice or completes and
   then panics - F11 repaired; none only if the handler's own code returns without completing) *)
(* [owed] = [owed_g false]: the completion function itself never panics (see C13_dispatch_* for one that does) *)
Theorem C13_completes_once_partial : forall es s route dec c b,
  f4_ser es s route dec true = false ->
  exists tr, call_ser (build es) s route dec c true b = Done tr /\
    completions tr = match expect_ser es s route dec c with VFail => [true] | VGood _ _ => owed b end.
Proof. exact completes_once_partial. Qed.
Print Assumptions C13_completes_once_partial.

Theorem C13_completes_exactly_once : forall es s route dec c b,
  f4_ser es s route dec true = false -> b <> BNever -> b <> BDefer ->
  exists tr, call_ser (build es) s route dec c true b = Done tr /\
    length (completions tr) = 1%nat /\
    (expect_ser es s route dec c = VFail -> completions tr = [true]).
Proof. exact completes_exactly_once. Qed.
Print Assumptions C13_completes_exactly_once.

(* the same for APICollection.Call with an already decoded (or nil, or wrongly typed) message *)
Theorem C13_call_completes_once_partial : forall es route c a b,
  f4_direct es route true = false ->
  completions (call (build es) route c a true b) =
  match expect_call es route c a with VFail => [true] | VGood _ _ => owed b end /\
  invocations (call (build es) route c a true b) =
  match expect_call es route c a with VFail => [] | VGood mt seen => [(m_uid mt, seen)] end.
Proof. exact call_completes_once_partial. Qed.
Print Assumptions C13_call_completes_once_partial.

(* the unrestricted statement is FALSE for today's code (F4): a good route and payload, a handler
   that is not "never completing", a completion function - and no completion *)
Theorem C13_completes_once_refuted :
  exists es s route dec c b mt v,
    b <> BNever /\ expect_ser es s route dec c = VGood mt (Some v) /\
    call_ser (build es) s route dec c true b = Done [].
Proof. exact completes_once_refuted. Qed.
Print Assumptions C13_completes_once_refuted.

(* F4 exactly: in that situation, for all entry sets, nothing runs and nothing is completed *)
Theorem C13_f4_returns_silently : forall es s route dec c b,
  f4_ser es s route dec true = true -> call_ser (build es) s route dec c true b = Done [].
Proof. exact call_ser_f4. Qed.
Print Assumptions C13_f4_returns_silently.

(* nothing escapes as a panic, for every call whatsoever *)
Theorem C13_no_panic_escapes : forall es s route dec c cb b,
  exists tr, call_ser (build es) s route dec c cb b = Done tr.
Proof. exact no_escape. Qed.
Print Assumptions C13_no_panic_escapes.

Theorem C13_no_cb_no_completion : forall es s route dec c b,
  exists tr, call_ser (build es) s route dec c false b = Done tr /\ completions tr = [].
Proof. exact no_cb_no_completion. Qed.
Print Assumptions C13_no_cb_no_completion.

(* histories: Register/Build/HasMethod/GetArgType/CallWithSerialize/Call in any order - the
   full-property monitor accepts the model's observations unless the history contains an F4 call;
   and it does reject one that does *)
Theorem C13_history : forall h, has_f4 h = false -> holds h (run h).
Proof. exact history_holds. Qed.
Print Assumptions C13_history.

Theorem C13_history_refuted : exists h, has_f4 h = true /\ ~ holds h (run h).
Proof. exact history_refuted. Qed.
Print Assumptions C13_history_refuted.

(* the tables answering at any point are, per collection, Build() of the entries registered
   before its last Build *)
Theorem C13_tables_of_last_build : forall h k,
  s_cs (col (final h) k) = build (ss_built (scol_of (sfinal h) k)) /\
  s_entries (col (final h) k) = ss_reg (scol_of (sfinal h) k).
Proof. exact tables_of_last_build. Qed.
Print Assumptions C13_tables_of_last_build.

(* ---- completion functions kept by handlers: deferred completions that overlap later calls ----
   A handler may keep the completion function it was given and run it after it returned (OFire),
   while further calls and requests go through the same collection / dispatcher.  The n-th kept
   function belongs to ONE call: *)

(* which calls leave one behind (and in which guard state), from the entries alone *)
Theorem C13_keeps : forall es s route dec c cb b,
  call_ser_keeps (build es) s route dec c cb b = spec_keeps (expect_ser es s route dec c) cb b.
Proof. exact call_ser_keeps_spec. Qed.
Print Assumptions C13_keeps.

Theorem C13_dispatch_keeps : forall ess rid route dec cx b,
  dispatch_keeps (map build ess) rid route dec cx b = spec_disp_keeps ess rid route dec cx b.
Proof. exact dispatch_keeps_spec. Qed.
Print Assumptions C13_dispatch_keeps.

(* after ANY history (any interleaving of calls, requests and runs of other kept functions): the
   owner of the n-th kept function is a call of the history that was given a completion function
   (at the recorded position), resp. a request of the history with that non-zero id *)
Theorem C13_kept_owner : forall h n p,
  nth_error (g_pend (final h)) n = Some p -> who_ok h (pd_who p).
Proof. exact kept_owner. Qed.
Print Assumptions C13_kept_owner.

(* running it answers THAT call / request, with what it is run with - whatever was called,
   dispatched or completed in between; it is then consumed (unless the caller's own completion
   function panicked: Service.Response on a result it cannot serialise) *)
Theorem C13_fire_own : forall h n w kd,
  nth_error (g_pend (final h)) n = Some (PD w false) ->
  obs_at h (OFire (Z.of_nat n) kd) = BFire (deliver w kd) (escapes w kd) /\
  (escapes w kd = false -> consumed (final (h ++ [OFire (Z.of_nat n) kd])) n).
Proof. exact fire_own. Qed.
Print Assumptions C13_fire_own.

(* a consumed one (its call was completed by the handler itself, by the recover, or by an earlier
   run) does nothing, for ever *)
Theorem C13_fire_consumed : forall h n h2 kd,
  consumed (final h) n -> obs_at (h ++ h2) (OFire (Z.of_nat n) kd) = BFire [] false.
Proof. exact fire_consumed. Qed.
Print Assumptions C13_fire_consumed.

(* exactly once: after a run that delivered, no later run of the same function delivers *)
Theorem C13_fire_once : forall h n kd d e h2 kd',
  obs_at h (OFire (Z.of_nat n) kd) = BFire d e -> d <> [] ->
  obs_at (h ++ OFire (Z.of_nat n) kd :: h2) (OFire (Z.of_nat n) kd') = BFire [] false.
Proof. exact fire_once. Qed.
Print Assumptions C13_fire_once.

(* ---- the Dispatch layer: a ServiceRequest arriving at a Service whose APIDispatcher was made
   over the collections built from [ess], for ALL lists of entry sets ---- *)

(* master equation outside F4: the first collection resolving the route answers; none = one
   "no method" response (and the request falls through to ReceiveRequest iff its body deserialises) *)
Theorem C13_dispatch_eq : forall ess rid route dec rawok cx b,
  route <> [] -> f4_disp ess rid route dec = false ->
  handle_request (map build ess) rid route dec rawok cx b =
  match first_resolving ess route with
  | None => DO [] (if negb (rid =? 0) then [RspNoMethod] else []) rawok false
  | Some es =>
      let v := expect_ser es SProto route dec cx in
      DO (disp_inv v) (disp_rsps v (negb (rid =? 0)) b) false false
  end.
Proof. exact handle_request_eq. Qed.
Print Assumptions C13_dispatch_eq.

(* a request (rid <> 0) gets EXACTLY ONE response: "no method" when no collection has the route,
   an error in every other failure case (nothing runs in either), and in the good case the
   targeted method runs once and the response is what the handler owes (an error also when its
   result cannot be serialised) *)
Theorem C13_dispatch_one_response : forall ess rid route dec rawok cx b,
  route <> [] -> f4_disp ess rid route dec = false -> rid <> 0 -> b <> BNever -> b <> BDefer ->
  let d := handle_request (map build ess) rid route dec rawok cx b in
  length (d_rsp d) = 1%nat /\
  (first_resolving ess route = None -> d_rsp d = [RspNoMethod] /\ d_inv d = []) /\
  (forall es, first_resolving ess route = Some es -> expect_ser es SProto route dec cx = VFail ->
     d_rsp d = [RspDone true] /\ d_inv d = []) /\
  (forall es mt seen, first_resolving ess route = Some es ->
     expect_ser es SProto route dec cx = VGood mt seen ->
     d_inv d = [EvInvoke (m_uid mt) seen] /\ d_rsp d = map RspDone (owed_g true b)).
Proof. exact dispatch_one_response. Qed.
Print Assumptions C13_dispatch_one_response.

(* a notification (rid = 0) is never answered *)
Theorem C13_dispatch_notify_silent : forall ess route dec rawok cx b,
  d_rsp (handle_request (map build ess) 0 route dec rawok cx b) = [].
Proof. exact dispatch_notify_silent. Qed.
Print Assumptions C13_dispatch_notify_silent.

(* no request whatsoever makes the service actor fail *)
Theorem C13_dispatch_no_escape : forall ess rid route dec rawok cx b,
  d_esc (handle_request (map build ess) rid route dec rawok cx b) = false.
Proof. exact dispatch_no_escape. Qed.
Print Assumptions C13_dispatch_no_escape.

(* F4 on this path: a REQUEST to a notify-shaped method is swallowed - for all entry sets nothing
   runs and the peer gets no response; so "exactly one response" is false for today's code *)
Theorem C13_dispatch_f4_silent : forall ess rid route dec rawok cx b,
  f4_disp ess rid route dec = true ->
  handle_request (map build ess) rid route dec rawok cx b = DO [] [] false false.
Proof. exact handle_request_f4. Qed.
Print Assumptions C13_dispatch_f4_silent.

Theorem C13_dispatch_one_response_refuted :
  exists ess rid route dec rawok cx b es mt v,
    rid <> 0 /\ b <> BNever /\ first_resolving ess route = Some es /\
    expect_ser es SProto route dec cx = VGood mt (Some v) /\
    d_rsp (handle_request (map build ess) rid route dec rawok cx b) = [].
Proof. exact dispatch_one_response_refuted. Qed.
Print Assumptions C13_dispatch_one_response_refuted.

Theorem C13_history_refuted_dispatch : exists h, has_f4 h = true /\ ~ holds h (run h).
Proof. exact history_refuted_dispatch. Qed.
Print Assumptions C13_history_refuted_dispatch.

(* non-vacuity: lower-cased names under group "hi"; Bad (non-pointer message) is not exposed;
   collection 1 is empty; complete-then-panic completes once; undecodable payload completes once
   with an error; a notification without completion function just runs.  Through a dispatcher
   over collections [1; 0]: an unserialisable result is answered with one error; an unexposed
   route with one "no method" (its body does not deserialise: no fall-through, no panic); a
   foreign context with one error and no invocation; a notification with nothing *)
Example C13_example :
  run ex_hist =
  [BUnit; BUnit; BBool true; BBool false; BBool false;
   BCall [EvInvoke 1 (Some 7); EvComplete false] false;
   BCall [EvComplete true] false;
   BCall [EvInvoke 2 (Some 7)] false;
   BDisp [EvInvoke 1 (Some 7)] [RspDone true] false false;
   BDisp [] [RspNoMethod] false false;
   BDisp [] [RspDone true] false false;
   BDisp [EvInvoke 2 (Some 7)] [] false false].
Proof. vm_compute. reflexivity. Qed.

Example C13_example_monitor : has_f4 ex_hist = false /\ holds ex_hist (run ex_hist).
Proof. split; vm_compute; reflexivity. Qed.

(* non-vacuity for the rejection frame: an entry with no handler-shaped method asks for "hi"
   first; the valid entry registered under "hi" after it is served as if it had never been there *)
Example C13_example_rejected :
  rejected (build []) (E 1 [90] [ex_bad], ex_opts) = true /\
  accepted [(E 1 [90] [ex_bad], ex_opts); (ex_entry, ex_opts); (ex_entry, ex_opts)] = [(ex_entry, ex_opts)] /\
  run [OReg 0 (E 1 [90] [ex_bad]) ex_opts; OReg 0 ex_entry ex_opts; OBuild 0; OHas 0 ex_r_join] =
  [BUnit; BUnit; BUnit; BBool true].
Proof. repeat split; vm_compute; reflexivity. Qed.

(* non-vacuity for deferred completions: request 5 is kept by its handler, request 6 is dispatched
   and answered in between, a direct call keeps its function too; then request 5's function is
   run: the peer gets the response for 5 (not 6), a second run does nothing; the call's function
   answers the call at position 4 *)
Example C13_example_overlap :
  run [OReg 0 ex_entry ex_opts; OBuild 0;
       ODispatch [0] 5 ex_r_join [] ex_dec true (CTyp 1) BDefer;
       ODispatch [0] 6 ex_r_join [] ex_dec true (CTyp 1) BOk;
       OCallSer 0 SJson ex_r_join [] ex_dec CNil true BDefer;
       OFire 0 FOk; OFire 1 FErr; OFire 0 FErr; OFire 7 FOk] =
  [BUnit; BUnit;
   BDisp [EvInvoke 1 (Some 7)] [] false false;
   BDisp [EvInvoke 1 (Some 7)] [RspDone false] false false;
   BCall [EvInvoke 1 (Some 7)] false;
   BFire [FRsp 5 (RspDone false)] false; BFire [FCall 4 true] false; BFire [] false; BFire [] false].
Proof. vm_compute. reflexivity. Qed.
