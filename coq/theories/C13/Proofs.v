From Cell2V Require Import Common.Tac Common.ListX C13.Model C13.Spec.

(* ---- strings ---- *)
Lemma str_eqb_eq a b : str_eqb a b = true <-> a = b.
Proof. apply zlist_eqb_spec. Qed.

Lemma str_eqb_refl a : str_eqb a a = true.
Proof. apply str_eqb_eq. reflexivity. Qed.

Lemma str_eqb_neq a b : a <> b -> str_eqb a b = false.
Proof.
  intro N. destruct (str_eqb a b) eqn:E; [|reflexivity].
  apply str_eqb_eq in E. contradiction.
Qed.

(* ---- find ---- *)
Lemma find_app {A} (f : A -> bool) (l1 l2 : list A) :
  find f (l1 ++ l2) = match find f l1 with Some x => Some x | None => find f l2 end.
Proof.
  induction l1 as [|x r IH]; simpl; [reflexivity|].
  destruct (f x); [reflexivity | exact IH].
Qed.

Lemma find_split {A} (f : A -> bool) (l : list A) x :
  find f l = Some x ->
  exists pre post, l = pre ++ x :: post /\ f x = true /\ forall y, In y pre -> f y = false.
Proof.
  induction l as [|y r IH]; simpl; [discriminate|].
  destruct (f y) eqn:Fy.
  - intro E. inv E. exists [], r. split; [reflexivity|]. split; [exact Fy|].
    intros z [].
  - intro E. destruct (IH E) as [pre [post [L [Fx Hpre]]]].
    exists (y :: pre), post. split; [rewrite L; reflexivity|]. split; [exact Fx|].
    intros z [->|I]; [exact Fy | apply Hpre; exact I].
Qed.

Lemma find_first {A} (f : A -> bool) pre x post :
  f x = true -> (forall y, In y pre -> f y = false) -> find f (pre ++ x :: post) = Some x.
Proof.
  intros Fx Hpre. induction pre as [|y r IH]; simpl.
  - rewrite Fx. reflexivity.
  - rewrite (Hpre y) by (left; reflexivity). apply IH.
    intros z I. apply Hpre. right. exact I.
Qed.

Lemma find_exists {A} (f : A -> bool) (l : list A) x :
  In x l -> f x = true -> exists y, find f l = Some y.
Proof.
  intros I Fx. destruct (find f l) as [y|] eqn:E; [eauto|].
  pose proof (find_none f l E x I) as N. congruence.
Qed.

(* ---- the shape predicate ---- *)
Lemma shape_b_spec m : shape_b m = true <-> handler_shape m.
Proof.
  unfold shape_b, handler_shape, request_shape, notify_shape. split.
  - intro Hs. apply andb_true_iff in Hs. destruct Hs as [Ex Hs].
    destruct (m_ins m) as [|c [|a [|f [|x r]]]]; try discriminate.
    + right. split; [exact Ex|]. exists c, a.
      apply andb_true_iff in Hs. destruct Hs as [Hs Pa].
      apply andb_true_iff in Hs. destruct Hs as [Pc Cc]. auto.
    + left. split; [exact Ex|]. exists c, a, f.
      apply andb_true_iff in Hs. destruct Hs as [Hs Ff].
      apply andb_true_iff in Hs. destruct Hs as [Hs Pa].
      apply andb_true_iff in Hs. destruct Hs as [Pc Cc]. repeat split; auto.
  - intros [[Ex [c [a [f [I [Pc [Cc [Pa Ff]]]]]]]]|[Ex [c [a [I [Pc [Cc Pa]]]]]]];
      rewrite Ex, I; simpl.
    + rewrite Pc, Cc, Pa, Ff. reflexivity.
    + rewrite Pc, Cc, Pa. reflexivity.
Qed.

Lemma num_in_4 m : (num_in m =? 4) = Nat.eqb (length (m_ins m)) 3.
Proof.
  unfold num_in. destruct (Z.eqb_spec (1 + Z.of_nat (length (m_ins m))) 4) as [E|E];
    destruct (Nat.eqb_spec (length (m_ins m)) 3) as [F|F]; try reflexivity; lia.
Qed.

Lemma num_in_3 m : (num_in m =? 3) = Nat.eqb (length (m_ins m)) 2.
Proof.
  unfold num_in. destruct (Z.eqb_spec (1 + Z.of_nat (length (m_ins m))) 3) as [E|E];
    destruct (Nat.eqb_spec (length (m_ins m)) 2) as [F|F]; try reflexivity; lia.
Qed.

(* IsValidMethod, as written in formater.go, accepts exactly the handler shape *)
Lemma is_valid_shape m : is_valid m = shape_b m.
Proof.
  unfold is_valid, is_valid_request, is_valid_notify, shape_b.
  rewrite num_in_4, num_in_3. unfold in_.
  destruct (m_exported m); simpl; [|reflexivity].
  destruct (m_ins m) as [|c [|a [|f [|x r]]]]; simpl; try reflexivity.
  - destruct (p_ptr c), (p_ctx c), (p_ptr a); reflexivity.
  - destruct (p_ptr c), (p_ctx c), (p_ptr a), (p_func f); reflexivity.
Qed.

Lemma is_valid_spec m : is_valid m = true <-> handler_shape m.
Proof. rewrite is_valid_shape. apply shape_b_spec. Qed.

Lemma shape_req m : shape_b m = true -> h_req (mk_handler m) = is_request m.
Proof.
  unfold shape_b, is_request. simpl. rewrite num_in_4. intro Hs.
  apply andb_true_iff in Hs. destruct Hs as [_ Hs].
  destruct (m_ins m) as [|c [|a [|f [|x r]]]]; try discriminate; reflexivity.
Qed.

Lemma shape_msg_ptr m : shape_b m = true -> p_ptr (msg_type m) = true.
Proof.
  unfold shape_b, msg_type. intro Hs.
  apply andb_true_iff in Hs. destruct Hs as [_ Hs].
  destruct (m_ins m) as [|c [|a [|f [|x r]]]]; try discriminate; simpl.
  - apply andb_true_iff in Hs. destruct Hs as [_ Pa]. exact Pa.
  - apply andb_true_iff in Hs. destruct Hs as [Hs _].
    apply andb_true_iff in Hs. destruct Hs as [_ Pa]. exact Pa.
Qed.

(* ---- the method table of one container ---- *)
Definition sel (nf : option (str -> str)) (m : str) (mt : meth) : bool :=
  shape_b mt && str_eqb m (rename nf (m_name mt)).

Lemma sget_suitable nf m ms : forall acc,
  sget m (suitable nf ms acc) =
  match find (sel nf m) (rev ms) with
  | Some mt => Some (mk_handler mt)
  | None => sget m acc
  end.
Proof.
  induction ms as [|x r IH]; intro acc; simpl; [reflexivity|].
  rewrite IH, find_app.
  destruct (find (sel nf m) (rev r)) as [mt|]; [reflexivity|].
  simpl. unfold sel at 1. rewrite is_valid_shape.
  destruct (shape_b x); simpl; [|reflexivity].
  destruct (str_eqb m (rename nf (m_name x))); reflexivity.
Qed.

Lemma suitable_empty nf ms : forall acc,
  is_empty (suitable nf ms acc) = is_empty acc && negb (existsb shape_b ms).
Proof.
  induction ms as [|x r IH]; intro acc; simpl.
  - rewrite andb_true_r. reflexivity.
  - rewrite IH, is_valid_shape. destruct (shape_b x); simpl.
    + rewrite andb_false_r. reflexivity.
    + reflexivity.
Qed.

Lemma group_name_spec e o : group_name e o = spec_group (e, o).
Proof. unfold group_name, spec_group. simpl. destruct (o_group o); reflexivity. Qed.

Lemma extract_servable e o :
  extract e o =
  if servable_b (e, o) then Some (suitable (o_nf o) (e_meths e) []) else None.
Proof.
  unfold extract, servable_b. cbn [fst snd].
  destruct (e_tname e) as [|c r]; [reflexivity|]. cbn [is_empty].
  destruct (is_exported_name (c :: r)); cbn [negb andb]; [|reflexivity].
  rewrite suitable_empty. simpl.
  destruct (existsb shape_b (e_meths e)); reflexivity.
Qed.

(* ---- the container table ---- *)
Definition cont_of (eo : eopt) : container :=
  C (spec_group eo) (e_zid (fst eo)) (suitable (o_nf (snd eo)) (e_meths (fst eo)) []).

Lemma sget_build_from g es : forall cs,
  sget g (fold_left new_service es cs) =
  match sget g cs with
  | Some c => Some c
  | None => option_map cont_of (owner_b es g)
  end.
Proof.
  induction es as [|[e o] r IH]; intro cs; simpl fold_left.
  - simpl. destruct (sget g cs); reflexivity.
  - rewrite IH. unfold new_service. rewrite group_name_spec.
    unfold owner_b. simpl find. fold (owner_b r g).
    destruct (sget (spec_group (e, o)) cs) as [c0|] eqn:En.
    + destruct (sget g cs) as [c|] eqn:Eg; [reflexivity|].
      rewrite str_eqb_neq; [reflexivity|].
      intro X. subst g. rewrite En in Eg. discriminate.
    + rewrite extract_servable. destruct (servable_b (e, o)) eqn:Sv.
      * simpl sget. destruct (str_eqb g (spec_group (e, o))) eqn:Eq.
        -- apply str_eqb_eq in Eq. subst g. rewrite En. simpl. reflexivity.
        -- simpl. reflexivity.
      * rewrite andb_false_r. reflexivity.
Qed.

Lemma sget_build g es : sget g (build es) = option_map cont_of (owner_b es g).
Proof. unfold build. rewrite sget_build_from. reflexivity. Qed.

(* Build()'s tables answer exactly like the declarative resolution *)
Lemma find_handler_resolve es route :
  find_handler (build es) route = option_map mk_handler (resolve es route).
Proof.
  unfold find_handler, resolve.
  destruct (split_route route) as [[g m]|]; [|reflexivity].
  rewrite sget_build. destruct (owner_b es g) as [eo|]; simpl; [|reflexivity].
  rewrite sget_suitable. simpl. unfold target_b, new_name.
  change (fun mt : meth => shape_b mt && str_eqb m (rename (o_nf (snd eo)) (m_name mt)))
    with (sel (o_nf (snd eo)) m).
  destruct (find (sel (o_nf (snd eo)) m) (rev (e_meths (fst eo)))); reflexivity.
Qed.

Lemma get_arg_type_resolve es route :
  get_arg_type (build es) route = option_map msg_type (resolve es route).
Proof.
  unfold get_arg_type. rewrite find_handler_resolve.
  destruct (resolve es route); reflexivity.
Qed.

Lemma has_method_resolve es route :
  has_method (build es) route = match resolve es route with Some _ => true | None => false end.
Proof.
  unfold has_method. rewrite get_arg_type_resolve.
  destruct (resolve es route); reflexivity.
Qed.

(* ---- resolution, declaratively ---- *)
Lemma servable_b_spec eo : servable_b eo = true <-> servable eo.
Proof.
  unfold servable_b, servable. rewrite andb_true_iff, existsb_exists. split.
  - intros [Ex [m [I Hs]]]. split; [exact Ex|]. exists m. split; [exact I|].
    apply shape_b_spec. exact Hs.
  - intros [Ex [m [I Hs]]]. split; [exact Ex|]. exists m. split; [exact I|].
    apply shape_b_spec. exact Hs.
Qed.

Lemma owner_b_owns es g eo : owner_b es g = Some eo <-> owns es g eo.
Proof.
  unfold owner_b, owns. split.
  - intro F. destruct (find_split _ _ _ F) as [pre [post [L [Fx Hpre]]]].
    apply andb_true_iff in Fx. destruct Fx as [Eg Sv].
    exists pre, post. split; [exact L|].
    split; [symmetry; apply str_eqb_eq; exact Eg|].
    split; [apply servable_b_spec; exact Sv|].
    intros x I Gx Sx. specialize (Hpre x I).
    rewrite <- Gx, str_eqb_refl in Hpre. simpl in Hpre.
    apply servable_b_spec in Sx. congruence.
  - intros [pre [post [L [Gx [Sv Hpre]]]]]. rewrite L. apply find_first.
    + rewrite <- Gx, str_eqb_refl. simpl. apply servable_b_spec. exact Sv.
    + intros y I. destruct (str_eqb g (spec_group y)) eqn:Eq; simpl; [|reflexivity].
      destruct (servable_b y) eqn:Sy; [|reflexivity].
      apply str_eqb_eq in Eq. apply servable_b_spec in Sy.
      exfalso. apply (Hpre y I); [symmetry; exact Eq | exact Sy].
Qed.

Lemma sel_true eo m mt :
  sel (o_nf (snd eo)) m mt = true <-> handler_shape mt /\ new_name eo mt = m.
Proof.
  unfold sel, new_name. rewrite andb_true_iff, shape_b_spec, str_eqb_eq.
  split; intros [A B]; split; auto.
Qed.

Lemma target_b_selects eo m mt : target_b eo m = Some mt <-> selects eo m mt.
Proof.
  unfold target_b, selects.
  change (fun x : meth => shape_b x && str_eqb m (new_name eo x)) with (sel (o_nf (snd eo)) m).
  split.
  - intro F. destruct (find_split _ _ _ F) as [pre [post [L [Fx Hpre]]]].
    apply sel_true in Fx. destruct Fx as [Hs Nm].
    exists (rev post), (rev pre). split.
    + rewrite <- (rev_involutive (e_meths (fst eo))), L, rev_app_distr. simpl.
      rewrite <- app_assoc. reflexivity.
    + split; [exact Hs|]. split; [exact Nm|].
      intros x I Hx Nx. apply in_rev in I. specialize (Hpre x I).
      assert (T : sel (o_nf (snd eo)) m x = true) by (apply sel_true; auto). congruence.
  - intros [l1 [l2 [L [Hs [Nm Hl2]]]]]. rewrite L, rev_app_distr. simpl.
    rewrite <- app_assoc. simpl. apply find_first.
    + apply sel_true. auto.
    + intros y I. apply in_rev in I.
      destruct (sel (o_nf (snd eo)) m y) eqn:Sy; [|reflexivity].
      apply sel_true in Sy. destruct Sy as [Hy Ny]. exfalso. exact (Hl2 y I Hy Ny).
Qed.

Lemma selects_answers eo m mt : selects eo m mt -> answers eo m mt.
Proof.
  intros [l1 [l2 [L [Hs [Nm _]]]]]. split; [|auto].
  rewrite L. apply in_or_app. right. left. reflexivity.
Qed.

Lemma answers_target eo m mt : answers eo m mt -> exists mt', target_b eo m = Some mt'.
Proof.
  intros [I [Hs Nm]]. unfold target_b.
  apply find_exists with (x := mt).
  - apply in_rev in I. exact I.
  - apply (sel_true eo m mt). auto.
Qed.

Lemma resolve_targets es route mt : resolve es route = Some mt <-> targets es route mt.
Proof.
  unfold resolve, targets. split.
  - destruct (split_route route) as [[g m]|]; [|discriminate].
    destruct (owner_b es g) as [eo|] eqn:Ow; [|discriminate].
    intro T. exists g, m, eo. split; [reflexivity|].
    split; [apply owner_b_owns; exact Ow | apply target_b_selects; exact T].
  - intros [g [m [eo [Sp [Ow Se]]]]]. rewrite Sp.
    apply owner_b_owns in Ow. rewrite Ow. apply target_b_selects. exact Se.
Qed.

Lemma resolve_shape es route mt : resolve es route = Some mt -> shape_b mt = true.
Proof.
  intro R. apply resolve_targets in R. destruct R as [g [m [eo [_ [_ Se]]]]].
  destruct Se as [l1 [l2 [_ [Hs _]]]]. apply shape_b_spec. exact Hs.
Qed.

Lemma exposure es route : has_method (build es) route = true <-> exposed es route.
Proof.
  rewrite has_method_resolve. unfold exposed. split.
  - destruct (resolve es route) as [mt|] eqn:R; [|discriminate]. intros _.
    apply resolve_targets in R. destruct R as [g [m [eo [Sp [Ow Se]]]]].
    exists g, m, eo, mt. split; [exact Sp|]. split; [exact Ow|].
    apply selects_answers. exact Se.
  - intros [g [m [eo [mt [Sp [Ow An]]]]]].
    destruct (answers_target _ _ _ An) as [mt' T].
    unfold resolve. rewrite Sp. apply owner_b_owns in Ow. rewrite Ow, T. reflexivity.
Qed.

(* two entries never share a group: ownership is functional *)
Lemma owns_functional es g eo1 eo2 : owns es g eo1 -> owns es g eo2 -> eo1 = eo2.
Proof.
  intros A B. apply owner_b_owns in A. apply owner_b_owns in B. congruence.
Qed.

Lemma selects_functional eo m mt1 mt2 : selects eo m mt1 -> selects eo m mt2 -> mt1 = mt2.
Proof.
  intros A B. apply target_b_selects in A. apply target_b_selects in B. congruence.
Qed.

(* when the naming function is injective on the entry's handler-shaped methods, "selects" is
   simply "answers" *)
Lemma answers_selects eo m mt :
  (forall x y, In x (e_meths (fst eo)) -> In y (e_meths (fst eo)) ->
               handler_shape x -> handler_shape y -> new_name eo x = new_name eo y -> x = y) ->
  answers eo m mt -> selects eo m mt.
Proof.
  intros Inj An. destruct (answers_target _ _ _ An) as [mt' T].
  apply target_b_selects in T. pose proof (selects_answers _ _ _ T) as An'.
  destruct An as [I [Hs Nm]]. destruct An' as [I' [Hs' Nm']].
  assert (mt = mt') by (apply Inj; auto; congruence). subst mt'. exact T.
Qed.

(* ---- calls ---- *)
Definition expected_trace_g (rp : bool) (v : verdict) (cb : bool) (b : beh) : list ev :=
  match v with
  | VFail => check_invoke cb true
  | VGood mt seen =>
      EvInvoke (m_uid mt) seen ::
      (if cb && is_request mt then map EvComplete (owed_g rp b) else [])
  end.
Definition expected_trace : verdict -> bool -> beh -> list ev := expected_trace_g false.

Lemma call_model rp es route c a cb b :
  call_g rp (build es) route c a cb b =
  match resolve es route with
  | None => check_invoke cb true
  | Some mt =>
      let h := mk_handler mt in
      if h_req h then safe_call_g rp h c a cb b
      else if cb then [] else safe_call_g rp h c a cb b
  end.
Proof.
  unfold call_g, resolve.
  destruct (split_route route) as [[g m]|]; [|reflexivity].
  rewrite sget_build. destruct (owner_b es g) as [eo|]; simpl; [|reflexivity].
  unfold call_method_g. simpl c_handlers. rewrite sget_suitable. simpl sget.
  unfold target_b, new_name.
  change (fun mt : meth => shape_b mt && str_eqb m (rename (o_nf (snd eo)) (m_name mt)))
    with (sel (o_nf (snd eo)) m).
  destruct (find (sel (o_nf (snd eo)) m) (rev (e_meths (fst eo)))); reflexivity.
Qed.

(* the once-guard, the handler's script and the recover together yield what is owed *)
Lemma safe_call_request rp mt c a cb b :
  shape_b mt = true -> is_request mt = true ->
  safe_call_g rp (mk_handler mt) c a cb b =
  if fits mt c a
  then EvInvoke (m_uid mt) (seen_of a) :: (if cb then map EvComplete (owed_g rp b) else [])
  else check_invoke cb true.
Proof.
  intros Hs Q. unfold safe_call_g. rewrite (shape_req mt Hs), Q.
  unfold fits. rewrite Q. simpl h_meth. simpl h_ctx. simpl h_arg.
  change (in_ mt 1) with (ctx_type mt). change (in_ mt 2) with (msg_type mt).
  change (in_ mt 3) with (cb_type mt).
  destruct (ctx_fits (ctx_type mt) c && arg_fits (msg_type mt) a && p_cbfit (cb_type mt));
    [|reflexivity].
  destruct b, rp, cb; reflexivity.
Qed.

Lemma safe_call_notify rp mt c a b :
  shape_b mt = true -> is_request mt = false ->
  safe_call_g rp (mk_handler mt) c a false b =
  if fits mt c a then [EvInvoke (m_uid mt) (seen_of a)] else [].
Proof.
  intros Hs Q. unfold safe_call_g. rewrite (shape_req mt Hs), Q.
  unfold fits. rewrite Q, andb_true_r. simpl h_meth. simpl h_ctx. simpl h_arg.
  change (in_ mt 1) with (ctx_type mt). change (in_ mt 2) with (msg_type mt).
  reflexivity.
Qed.

(* the master equation for APICollection.Call *)
Lemma call_trace_g rp es route c a cb b :
  f4_direct es route cb = false ->
  call_g rp (build es) route c a cb b = expected_trace_g rp (expect_call es route c a) cb b.
Proof.
  intro NF. rewrite call_model. unfold expect_call, f4_direct in *.
  destruct (resolve es route) as [mt|] eqn:R; [|reflexivity].
  pose proof (resolve_shape _ _ _ R) as Hs. cbv zeta. rewrite (shape_req mt Hs).
  destruct (is_request mt) eqn:Q.
  - rewrite (safe_call_request rp mt c a cb b Hs Q).
    destruct (fits mt c a); [|reflexivity].
    simpl. rewrite Q, andb_true_r. reflexivity.
  - simpl in NF. rewrite andb_true_r in NF. subst cb.
    rewrite (safe_call_notify rp mt c a b Hs Q).
    destruct (fits mt c a); reflexivity.
Qed.

Lemma call_trace es route c a cb b :
  f4_direct es route cb = false ->
  call (build es) route c a cb b = expected_trace (expect_call es route c a) cb b.
Proof. exact (call_trace_g false es route c a cb b). Qed.

(* the master equation for CallWithSerialize *)
Lemma call_ser_trace_g rp es s route dec c cb b :
  f4_ser es s route dec cb = false ->
  call_ser_g rp (build es) s route dec c cb b =
  Done (expected_trace_g rp (expect_ser es s route dec c) cb b).
Proof.
  intro NF. unfold call_ser_g, expect_ser, f4_ser in *.
  destruct s; try reflexivity;
    rewrite get_arg_type_resolve;
    (destruct (resolve es route) as [mt|] eqn:R; simpl; [|reflexivity]);
    rewrite (shape_msg_ptr mt (resolve_shape _ _ _ R)); simpl;
    (destruct (decode dec (p_tid (msg_type mt))) as [v|]; [|reflexivity]);
    rewrite call_trace_g by exact NF; reflexivity.
Qed.

Lemma call_ser_trace es s route dec c cb b :
  f4_ser es s route dec cb = false ->
  call_ser (build es) s route dec c cb b =
  Done (expected_trace (expect_ser es s route dec c) cb b).
Proof. exact (call_ser_trace_g false es s route dec c cb b). Qed.

(* F4 itself, for every entry set: the call returns with no event at all *)
Lemma call_f4_g rp es route c a b :
  f4_direct es route true = true -> call_g rp (build es) route c a true b = [].
Proof.
  unfold f4_direct. simpl. intro F. rewrite call_model.
  destruct (resolve es route) as [mt|] eqn:R; [|discriminate].
  cbv zeta. rewrite (shape_req mt (resolve_shape _ _ _ R)).
  destruct (is_request mt); [discriminate | reflexivity].
Qed.

Lemma f4_ser_cb es s route dec cb : f4_ser es s route dec cb = true -> cb = true.
Proof.
  unfold f4_ser, f4_direct. destruct cb; [reflexivity|].
  destruct s; try discriminate;
    (destruct (resolve es route); [|discriminate]);
    (destruct (decode dec _); discriminate).
Qed.

Lemma call_ser_f4_g rp es s route dec c b :
  f4_ser es s route dec true = true -> call_ser_g rp (build es) s route dec c true b = Done [].
Proof.
  unfold call_ser_g, f4_ser. intro F.
  destruct s; try discriminate;
    rewrite get_arg_type_resolve;
    (destruct (resolve es route) as [mt|] eqn:R; simpl; [|discriminate]);
    rewrite (shape_msg_ptr mt (resolve_shape _ _ _ R)); simpl;
    (destruct (decode dec (p_tid (msg_type mt))) as [v|]; [|discriminate]);
    rewrite call_f4_g by exact F; reflexivity.
Qed.

Lemma call_ser_f4 es s route dec c b :
  f4_ser es s route dec true = true -> call_ser (build es) s route dec c true b = Done [].
Proof. exact (call_ser_f4_g false es s route dec c b). Qed.

(* no panic leaves CallWithSerialize - with or without F4 *)
Lemma no_escape_g rp es s route dec c cb b :
  exists tr, call_ser_g rp (build es) s route dec c cb b = Done tr.
Proof.
  destruct (f4_ser es s route dec cb) eqn:F.
  - pose proof (f4_ser_cb _ _ _ _ _ F) as ->. rewrite call_ser_f4_g by exact F. eauto.
  - rewrite call_ser_trace_g by exact F. eauto.
Qed.

Lemma no_escape es s route dec c cb b :
  exists tr, call_ser (build es) s route dec c cb b = Done tr.
Proof. exact (no_escape_g false es s route dec c cb b). Qed.

(* ---- reading the expected trace ---- *)
Lemma invocations_completes l : invocations (map EvComplete l) = [].
Proof. induction l as [|x r IH]; simpl; auto. Qed.

Lemma completions_completes l : completions (map EvComplete l) = l.
Proof. induction l as [|x r IH]; simpl; [reflexivity | rewrite IH; reflexivity]. Qed.

Lemma invocations_expected rp v cb b :
  invocations (expected_trace_g rp v cb b) =
  match v with VFail => [] | VGood mt seen => [(m_uid mt, seen)] end.
Proof.
  destruct v as [|mt seen]; simpl.
  - destruct cb; reflexivity.
  - destruct (cb && is_request mt); [rewrite invocations_completes|]; reflexivity.
Qed.

Lemma completions_expected rp v cb b :
  completions (expected_trace_g rp v cb b) =
  match v with
  | VFail => if cb then [true] else []
  | VGood mt _ => if cb && is_request mt then owed_g rp b else []
  end.
Proof.
  destruct v as [|mt seen]; simpl.
  - destruct cb; reflexivity.
  - destruct (cb && is_request mt); [rewrite completions_completes|]; reflexivity.
Qed.

Lemma owed_once rp b : b <> BNever -> b <> BDefer -> length (owed_g rp b) = 1%nat.
Proof. destruct b; simpl; congruence. Qed.

(* under "no F4", a good classification of a call with a completion function is a request *)
Lemma good_is_request_direct es route c a mt seen :
  f4_direct es route true = false -> expect_call es route c a = VGood mt seen ->
  is_request mt = true.
Proof.
  unfold f4_direct, expect_call. simpl.
  destruct (resolve es route) as [mt'|]; [|discriminate].
  intros NF E. destruct (fits mt' c a); [|discriminate]. inv E.
  destruct (is_request mt); [reflexivity | discriminate].
Qed.

Lemma good_is_request_ser es s route dec c mt seen :
  f4_ser es s route dec true = false -> expect_ser es s route dec c = VGood mt seen ->
  is_request mt = true.
Proof.
  unfold f4_ser, expect_ser.
  destruct s; try discriminate;
    (destruct (resolve es route) as [mt'|] eqn:R; [|discriminate]);
    (destruct (decode dec (p_tid (msg_type mt'))) as [v|]; [|discriminate]);
    intros NF E; eapply good_is_request_direct; eauto.
Qed.

Lemma expect_ser_good es s route dec c mt seen :
  expect_ser es s route dec c = VGood mt seen ->
  s <> SNil /\ resolve es route = Some mt /\ fits mt c (AVal (p_tid (msg_type mt)) 0 0) = true /\
  exists v, seen = Some v /\ decode dec (p_tid (msg_type mt)) = DOk v.
Proof.
  unfold expect_ser, expect_call.
  destruct s; try discriminate;
    (destruct (resolve es route) as [mt'|] eqn:R; [|discriminate]);
    (destruct (decode dec (p_tid (msg_type mt'))) as [v|] eqn:D; [|discriminate]);
    (destruct (fits mt' c (AVal (p_tid (msg_type mt')) 0 v)) eqn:F; [|discriminate]);
    intro E; inv E; (split; [discriminate|]); (split; [reflexivity|]);
    (split; [exact F | exists v; auto]).
Qed.

(* ---- the Dispatch layer ---- *)
Lemma find_build ess route :
  find (fun cs => has_method cs route) (map build ess) = option_map build (first_resolving ess route).
Proof.
  unfold first_resolving. induction ess as [|es r IH]; simpl; [reflexivity|].
  rewrite has_method_resolve. destruct (resolve es route); [reflexivity | exact IH].
Qed.

Lemma first_resolving_resolves ess route es :
  first_resolving ess route = Some es -> In es ess /\ exists mt, resolve es route = Some mt.
Proof.
  intro F. apply find_some in F. destruct F as [I R]. split; [exact I|].
  destruct (resolve es route) as [mt|]; [eauto | discriminate].
Qed.

Lemma only_inv_completes l : only_inv (map EvComplete l) = [].
Proof. induction l as [|x r IH]; simpl; auto. Qed.

Lemma rsp_of_completes l : rsp_of (map EvComplete l) = map RspDone l.
Proof. induction l as [|x r IH]; simpl; [reflexivity | rewrite IH; reflexivity]. Qed.

(* what the peer of a dispatching service is owed, from the entries alone *)
Definition disp_inv (v : verdict) : list ev :=
  match v with VFail => [] | VGood mt seen => [EvInvoke (m_uid mt) seen] end.
Definition disp_rsps (v : verdict) (isreq : bool) (b : beh) : list rsp :=
  if isreq then match v with VFail => [RspDone true] | VGood _ _ => map RspDone (owed_g true b) end
  else [].

(* master equation for Service.handleRequest + APIDispatcher.Dispatch, outside F4 *)
Lemma handle_request_eq ess rid route dec rawok cx b :
  route <> [] -> f4_disp ess rid route dec = false ->
  handle_request (map build ess) rid route dec rawok cx b =
  match first_resolving ess route with
  | None => DO [] (if negb (rid =? 0) then [RspNoMethod] else []) rawok false
  | Some es =>
      let v := expect_ser es SProto route dec cx in
      DO (disp_inv v) (disp_rsps v (negb (rid =? 0)) b) false false
  end.
Proof.
  intros NE NF. unfold handle_request, f4_disp, try_call in *.
  destruct route as [|ch rt]; [contradiction|]. simpl is_empty in *. cbv iota. simpl negb in NF.
  rewrite andb_true_l in NF. rewrite find_build.
  destruct (first_resolving ess (ch :: rt)) as [es|] eqn:F; simpl option_map; cbv iota beta.
  - rewrite call_ser_trace_g by exact NF. cbv zeta.
    destruct (expect_ser es SProto (ch :: rt) dec cx) as [|mt seen] eqn:E; simpl expected_trace_g.
    + unfold disp_rsps, disp_inv, check_invoke. destruct (negb (rid =? 0)); reflexivity.
    + unfold disp_rsps, disp_inv. destruct (negb (rid =? 0)) eqn:Q.
      * rewrite (good_is_request_ser _ _ _ _ _ _ _ NF E). simpl andb. cbv iota.
        simpl only_inv. simpl rsp_of.
        rewrite only_inv_completes, rsp_of_completes. reflexivity.
      * reflexivity.
  - destruct (negb (rid =? 0)), rawok; reflexivity.
Qed.

(* F4 through Dispatch, for all entry sets: the request is swallowed - nothing runs, no response *)
Lemma handle_request_f4 ess rid route dec rawok cx b :
  f4_disp ess rid route dec = true ->
  handle_request (map build ess) rid route dec rawok cx b = DO [] [] false false.
Proof.
  unfold handle_request, f4_disp, try_call. intro F.
  destruct route as [|ch rt]; [discriminate|]. simpl is_empty in *. cbv iota. simpl negb in F.
  rewrite andb_true_l in F. rewrite find_build.
  destruct (first_resolving ess (ch :: rt)) as [es|]; [|discriminate]. simpl option_map. cbv iota beta.
  pose proof (f4_ser_cb _ _ _ _ _ F) as Q. rewrite Q in *.
  rewrite call_ser_f4_g by exact F. reflexivity.
Qed.

(* no request makes the service fail, F4 or not, route or not *)
Lemma dispatch_no_escape ess rid route dec rawok cx b :
  d_esc (handle_request (map build ess) rid route dec rawok cx b) = false.
Proof.
  destruct route as [|ch rt] eqn:Er.
  - unfold handle_request. simpl. destruct rawok; reflexivity.
  - rewrite <- Er. assert (NE : route <> []) by (subst; discriminate).
    destruct (f4_disp ess rid route dec) eqn:F.
    + rewrite handle_request_f4 by exact F. reflexivity.
    + rewrite handle_request_eq by assumption.
      destruct (first_resolving ess route); reflexivity.
Qed.

Lemma dispatch_notify_silent ess route dec rawok cx b :
  d_rsp (handle_request (map build ess) 0 route dec rawok cx b) = [].
Proof.
  destruct route as [|ch rt] eqn:Er.
  - unfold handle_request. simpl. destruct rawok; reflexivity.
  - rewrite <- Er. assert (NE : route <> []) by (subst; discriminate).
    assert (NF : f4_disp ess 0 route dec = false).
    { destruct (f4_disp ess 0 route dec) eqn:F; [|reflexivity]. exfalso.
      unfold f4_disp in F. apply andb_true_iff in F. destruct F as [_ F].
      destruct (first_resolving ess route) as [es|]; [|discriminate].
      apply f4_ser_cb in F. simpl in F. discriminate. }
    rewrite handle_request_eq by assumption.
    destruct (first_resolving ess route); reflexivity.
Qed.

Lemma dispatch_one_response ess rid route dec rawok cx b :
  route <> [] -> f4_disp ess rid route dec = false -> rid <> 0 -> b <> BNever -> b <> BDefer ->
  let d := handle_request (map build ess) rid route dec rawok cx b in
  length (d_rsp d) = 1%nat /\
  (first_resolving ess route = None -> d_rsp d = [RspNoMethod] /\ d_inv d = []) /\
  (forall es, first_resolving ess route = Some es -> expect_ser es SProto route dec cx = VFail ->
     d_rsp d = [RspDone true] /\ d_inv d = []) /\
  (forall es mt seen, first_resolving ess route = Some es ->
     expect_ser es SProto route dec cx = VGood mt seen ->
     d_inv d = [EvInvoke (m_uid mt) seen] /\ d_rsp d = map RspDone (owed_g true b)).
Proof.
  intros NE NF NR NB ND. cbv zeta. rewrite handle_request_eq by assumption.
  assert (Q : negb (rid =? 0) = true) by (apply negb_true_iff, Z.eqb_neq; exact NR).
  rewrite Q. destruct (first_resolving ess route) as [es|].
  - cbv zeta. destruct (expect_ser es SProto route dec cx) as [|mt seen] eqn:E;
      cbn [d_rsp d_inv disp_rsps disp_inv length].
    + repeat split; try discriminate; intros; congruence.
    + rewrite map_length, (owed_once true b NB ND).
      split; [reflexivity|]. split; [discriminate|]. split.
      * intros es0 X Y. inv X. congruence.
      * intros es0 mt0 seen0 X Y. inv X. rewrite E in Y. inv Y. split; reflexivity.
  - simpl. repeat split; discriminate.
Qed.

(* ---- the monitor accepts every model trace that has no F4 call ---- *)
Lemma ev_eqb_refl e : ev_eqb e e = true.
Proof.
  destruct e as [u s|x]; simpl.
  - rewrite Z.eqb_refl. destruct s as [z|]; simpl; [apply Z.eqb_refl | reflexivity].
  - destruct x; reflexivity.
Qed.

Lemma trace_eqb_refl t : trace_eqb t t = true.
Proof.
  induction t as [|e r IH]; simpl; [reflexivity|].
  rewrite ev_eqb_refl. exact IH.
Qed.

Lemma rsps_eqb_refl l : rsps_eqb l l = true.
Proof.
  induction l as [|x r IH]; simpl; [reflexivity|].
  rewrite IH, andb_true_r. destruct x as [|e]; simpl; [reflexivity | destruct e; reflexivity].
Qed.

Lemma ev_eqb_eq a b : ev_eqb a b = true <-> a = b.
Proof.
  split.
  - destruct a as [u s|x], b as [u' s'|x']; simpl; try discriminate.
    + intro E. apply andb_true_iff in E. destruct E as [E1 E2].
      apply Z.eqb_eq in E1. subst u'.
      apply (option_eqb_spec Z.eqb Z.eqb_eq) in E2. subst s'. reflexivity.
    + intro E. apply Bool.eqb_prop in E. subst x'. reflexivity.
  - intros ->. apply ev_eqb_refl.
Qed.

Lemma trace_eqb_eq a b : trace_eqb a b = true <-> a = b.
Proof. apply list_eqb_spec. exact ev_eqb_eq. Qed.

Lemma demand_expected v cb b :
  (cb = true -> match v with VGood mt _ => is_request mt = true | VFail => True end) ->
  demand v cb b (expected_trace v cb b) false = true.
Proof.
  intro G. unfold demand. simpl negb. rewrite andb_true_l.
  destruct v as [|mt seen]; unfold expected_trace, expected_trace_g, check_invoke.
  - destruct cb; apply trace_eqb_refl.
  - destruct cb.
    + rewrite (G eq_refl). cbn [andb]. apply trace_eqb_refl.
    + cbn [andb]. apply trace_eqb_refl.
Qed.

Lemma is_empty_false {A} (l : list A) : l <> [] -> is_empty l = false.
Proof. destruct l; [contradiction | reflexivity]. Qed.

Lemma demand_disp_model ess rid route dec rawok cx b :
  f4_disp ess rid route dec = false ->
  let d := handle_request (map build ess) rid route dec rawok cx b in
  demand_disp ess rid route dec cx b (d_inv d) (d_rsp d) (d_esc d) = true.
Proof.
  intro NF. cbv zeta. unfold demand_disp. rewrite dispatch_no_escape. simpl negb. rewrite andb_true_l.
  destruct (is_empty route) eqn:Em.
  - destruct route; [|discriminate]. unfold handle_request. simpl. destruct rawok; reflexivity.
  - assert (NE : route <> []) by (intro X; subst; discriminate).
    rewrite handle_request_eq by assumption. unfold demand_routed.
    destruct (first_resolving ess route) as [es|] eqn:F.
    + cbv zeta. cbn [d_inv d_rsp].
      destruct (expect_ser es SProto route dec cx) as [|mt seen] eqn:E.
      * unfold disp_inv, disp_rsps. destruct (negb (rid =? 0)); reflexivity.
      * unfold disp_inv, disp_rsps. destruct (negb (rid =? 0)) eqn:Q.
        -- assert (R : is_request mt = true).
           { unfold f4_disp in NF. rewrite F, Q, Em in NF. simpl negb in NF.
             rewrite andb_true_l in NF. exact (good_is_request_ser _ _ _ _ _ _ _ NF E). }
           rewrite R, trace_eqb_refl, rsps_eqb_refl. reflexivity.
        -- rewrite trace_eqb_refl. reflexivity.
    + cbn [d_inv d_rsp]. destruct (negb (rid =? 0)); reflexivity.
Qed.

(* the completion function a call leaves behind, from the entries alone *)
Lemma call_keeps_spec es route c a cb b :
  call_keeps (build es) route c a cb b = spec_keeps (expect_call es route c a) cb b.
Proof.
  unfold call_keeps, expect_call, spec_keeps. rewrite find_handler_resolve.
  destruct (resolve es route) as [mt|] eqn:R; cbn [option_map]; [|reflexivity].
  rewrite (shape_req mt (resolve_shape _ _ _ R)). unfold fits.
  simpl h_ctx. simpl h_arg. simpl h_meth.
  change (in_ mt 1) with (ctx_type mt). change (in_ mt 2) with (msg_type mt).
  change (in_ mt 3) with (cb_type mt).
  destruct (is_request mt) eqn:Q; simpl.
  - destruct cb, (ctx_fits (ctx_type mt) c), (arg_fits (msg_type mt) a), (p_cbfit (cb_type mt));
      simpl; rewrite ?Q; reflexivity.
  - rewrite andb_true_r.
    destruct (ctx_fits (ctx_type mt) c && arg_fits (msg_type mt) a); [|reflexivity].
    rewrite Q, andb_false_r. reflexivity.
Qed.

Lemma call_ser_keeps_spec es s route dec c cb b :
  call_ser_keeps (build es) s route dec c cb b = spec_keeps (expect_ser es s route dec c) cb b.
Proof.
  unfold call_ser_keeps, expect_ser.
  destruct s; try reflexivity;
    rewrite get_arg_type_resolve;
    (destruct (resolve es route) as [mt|] eqn:R; simpl; [|reflexivity]);
    rewrite (shape_msg_ptr mt (resolve_shape _ _ _ R)); simpl;
    (destruct (decode dec (p_tid (msg_type mt))) as [v|]; [|reflexivity]);
    apply call_keeps_spec.
Qed.

Lemma dispatch_keeps_spec ess rid route dec cx b :
  dispatch_keeps (map build ess) rid route dec cx b = spec_disp_keeps ess rid route dec cx b.
Proof.
  unfold dispatch_keeps, spec_disp_keeps. destruct (is_empty route); [reflexivity|].
  rewrite find_build. destruct (first_resolving ess route) as [es|]; cbn [option_map]; [|reflexivity].
  apply call_ser_keeps_spec.
Qed.

Definition Inv (s : st) (ss : sst) : Prop :=
  (forall k, s_entries (col s k) = ss_reg (scol_of ss k) /\
             s_cs (col s k) = build (ss_built (scol_of ss k))) /\
  g_pend s = sg_pend ss /\ g_pos s = sg_pos ss.

Lemma inv_init : Inv init sinit.
Proof. split; [intro k; split; reflexivity | split; reflexivity]. Qed.

Lemma tables_builts s ss ks : Inv s ss -> tables s ks = map build (builts ss ks).
Proof.
  intros [I _]. unfold tables, builts. rewrite map_map. apply map_ext. intro k. apply I.
Qed.

Lemma step_inv s ss o : Inv s ss -> Inv (fst (step s o)) (sstep ss o).
Proof.
  intros [I [Ip In]].
  destruct o as [k e op_|k|k r|k r|k sr r bytes dec c cb b|k r a c cb b|ks rid r bytes dec rawok cx b|n kd];
    simpl.
  - split; [|split; simpl; congruence]. unfold col, scol_of in *. intro j. simpl. unfold upd, supd.
    destruct (j =? k); [|apply I].
    destruct (I k) as [Ie Ic]. split; simpl; [rewrite Ie; reflexivity | exact Ic].
  - split; [|split; simpl; congruence]. unfold col, scol_of in *. intro j. simpl. unfold upd, supd.
    destruct (j =? k); [|apply I].
    destruct (I k) as [Ie Ic]. split; simpl; [exact Ie | rewrite Ie; reflexivity].
  - split; [exact I | split; simpl; congruence].
  - split; [exact I | split; simpl; congruence].
  - split; [exact I|]. split; simpl; [|congruence].
    destruct (I k) as [_ Ic]. rewrite Ic, call_ser_keeps_spec, Ip, In. reflexivity.
  - split; [exact I|]. split; simpl; [|congruence].
    destruct (I k) as [_ Ic]. rewrite Ic, call_keeps_spec, Ip, In. reflexivity.
  - split; [exact I|]. split; simpl; [|congruence].
    rewrite (tables_builts s ss ks (conj I (conj Ip In))), dispatch_keeps_spec, Ip. reflexivity.
  - destruct (n <? 0); [split; [exact I | split; simpl; congruence]|].
    rewrite <- Ip. destruct (fire_nth (g_pend s) (Z.to_nat n) kd) as [[d e] l].
    split; [exact I | split; simpl; congruence].
Qed.

Lemma fev_eqb_refl x : fev_eqb x x = true.
Proof.
  destruct x as [p e|r x]; simpl; rewrite Z.eqb_refl; simpl.
  - destruct e; reflexivity.
  - destruct x as [|e]; simpl; [reflexivity | destruct e; reflexivity].
Qed.

Lemma fevs_eqb_refl l : fevs_eqb l l = true.
Proof. induction l as [|x r IH]; simpl; [reflexivity|]. rewrite fev_eqb_refl. exact IH. Qed.

Lemma step_ok s ss o :
  Inv s ss -> op_f4 ss o = false -> op_ok ss o (snd (step s o)) = true.
Proof.
  intros [I [Ip In]] NF.
  destruct o as [k e op_|k|k r|k r|k sr r bytes dec c cb b|k r a c cb b|ks rid r bytes dec rawok cx b|n kd];
    simpl.
  - reflexivity.
  - reflexivity.
  - destruct (I k) as [_ Ic]. rewrite Ic, has_method_resolve. apply Bool.eqb_reflx.
  - destruct (I k) as [_ Ic]. rewrite Ic, get_arg_type_resolve.
    destruct (resolve (ss_built (scol_of ss k)) r) as [mt|]; simpl; [apply Z.eqb_refl | reflexivity].
  - destruct (I k) as [_ Ic]. simpl in NF. rewrite Ic, call_ser_trace by exact NF. simpl.
    apply demand_expected. intros ->.
    destruct (expect_ser (ss_built (scol_of ss k)) sr r dec c) as [|mt seen] eqn:E; [exact Logic.I|].
    eapply good_is_request_ser; eauto.
  - destruct (I k) as [_ Ic]. simpl in NF. rewrite Ic, call_trace by exact NF.
    apply demand_expected. intros ->.
    destruct (expect_call (ss_built (scol_of ss k)) r c a) as [|mt seen] eqn:E; [exact Logic.I|].
    eapply good_is_request_direct; eauto.
  - simpl in NF. rewrite (tables_builts s ss ks (conj I (conj Ip In))).
    apply (demand_disp_model (builts ss ks) rid r dec rawok cx b NF).
  - unfold demand_fire. destruct (n <? 0); [reflexivity|]. rewrite <- Ip.
    destruct (fire_nth (g_pend s) (Z.to_nat n) kd) as [[d e] l]. simpl.
    rewrite fevs_eqb_refl, Bool.eqb_reflx. reflexivity.
Qed.

Lemma monitor_run_from ops : forall s ss,
  Inv s ss -> has_f4_from ss ops = false ->
  monitor_from ss ops (snd (run_from s ops)) = true.
Proof.
  induction ops as [|o r IH]; intros s ss I NF; simpl; [reflexivity|].
  simpl in NF. apply orb_false_iff in NF. destruct NF as [NF1 NF2].
  pose proof (step_ok s ss o I NF1) as Ok. pose proof (step_inv s ss o I) as I1.
  destruct (step s o) as [s1 b] eqn:E1. simpl in Ok, I1.
  specialize (IH s1 (sstep ss o) I1 NF2).
  destruct (run_from s1 r) as [s2 bs] eqn:E2. simpl in *.
  rewrite Ok, IH. reflexivity.
Qed.

Lemma history_holds ops : has_f4 ops = false -> holds ops (run ops).
Proof. intro NF. unfold holds, run. apply monitor_run_from; [apply inv_init | exact NF]. Qed.

(* the tables in use are always those of the last Build *)
Fixpoint sfinal_from (ss : sst) (ops : list op) : sst :=
  match ops with [] => ss | o :: r => sfinal_from (sstep ss o) r end.
Definition sfinal (ops : list op) : sst := sfinal_from sinit ops.

Lemma inv_run_from ops : forall s ss, Inv s ss -> Inv (fst (run_from s ops)) (sfinal_from ss ops).
Proof.
  induction ops as [|o r IH]; intros s ss I; simpl; [exact I|].
  pose proof (step_inv s ss o I) as I1.
  destruct (step s o) as [s1 b] eqn:E1. simpl in I1.
  specialize (IH s1 (sstep ss o) I1).
  destruct (run_from s1 r) as [s2 bs] eqn:E2. simpl in *. exact IH.
Qed.

Lemma tables_of_last_build ops k :
  s_cs (col (final ops) k) = build (ss_built (scol_of (sfinal ops) k)) /\
  s_entries (col (final ops) k) = ss_reg (scol_of (sfinal ops) k).
Proof.
  destruct (inv_run_from ops init sinit inv_init) as [I _]. destruct (I k) as [A B].
  split; assumption.
Qed.

Lemma kept_of_last_build ops :
  g_pend (final ops) = sg_pend (sfinal ops) /\ g_pos (final ops) = sg_pos (sfinal ops).
Proof. destruct (inv_run_from ops init sinit inv_init) as [_ P]. exact P. Qed.

(* ---- frame: calls leave no trace in the collections ----
   HasMethod / GetArgType / CallWithSerialize / Call / a dispatched request / running a kept
   completion function never change what any later query, call or request observes: nothing is
   remembered from an earlier payload, no argument or completion function is reused.  (The only
   thing a call can leave behind is its own completion function in a handler that keeps it.) *)
Definition is_query (o : op) : bool :=
  match o with OReg _ _ _ | OBuild _ => false | _ => true end.
Definition is_fire (o : op) : bool := match o with OFire _ _ => true | _ => false end.

Definition obs_at (h : list op) (o : op) : obs := snd (step (final h) o).

Lemma step_query s o : is_query o = true -> g_cols (fst (step s o)) = g_cols s.
Proof.
  destruct o as [k e op_|k|k r|k r|k sr r bytes dec c cb b|k r a c cb b|ks rid r bytes dec rawok cx b|n kd];
    try discriminate; try reflexivity.
  intros _. simpl. destruct (n <? 0); [reflexivity|].
  destruct (fire_nth (g_pend s) (Z.to_nat n) kd) as [[d e] l]. reflexivity.
Qed.

Lemma run_from_queries cs : forall s,
  forallb is_query cs = true -> g_cols (fst (run_from s cs)) = g_cols s.
Proof.
  induction cs as [|o r IH]; intros s Q; simpl; [reflexivity|].
  simpl in Q. apply andb_true_iff in Q. destruct Q as [Q1 Q2].
  pose proof (step_query s o Q1) as E. destruct (step s o) as [s1 b]. simpl in E.
  specialize (IH s1 Q2). destruct (run_from s1 r) as [s2 bs]. simpl in *. congruence.
Qed.

Lemma step_obs_cols s s' o :
  g_cols s = g_cols s' -> is_fire o = false -> snd (step s o) = snd (step s' o).
Proof.
  intros E NFi.
  destruct o as [k e op_|k|k r|k r|k sr r bytes dec c cb b|k r a c cb b|ks rid r bytes dec rawok cx b|n kd];
    try discriminate; simpl; unfold tables, col; rewrite ?E; reflexivity.
Qed.

Lemma run_from_app h1 : forall s h2,
  fst (run_from s (h1 ++ h2)) = fst (run_from (fst (run_from s h1)) h2) /\
  snd (run_from s (h1 ++ h2)) = snd (run_from s h1) ++ snd (run_from (fst (run_from s h1)) h2).
Proof.
  induction h1 as [|o r IH]; intros s h2; simpl.
  - split; reflexivity.
  - destruct (step s o) as [s1 b]. destruct (IH s1 h2) as [A B].
    destruct (run_from s1 (r ++ h2)) as [s2 bs]. destruct (run_from s1 r) as [s3 bs3].
    simpl in *. split; [exact A | rewrite B; reflexivity].
Qed.

Lemma final_app h1 h2 : final (h1 ++ h2) = fst (run_from (final h1) h2).
Proof. unfold final. apply run_from_app. Qed.

Lemma final_snoc h o : final (h ++ [o]) = fst (step (final h) o).
Proof.
  rewrite final_app. simpl. destruct (step (final h) o) as [s1 b]. reflexivity.
Qed.

Lemma run_snoc h o : run (h ++ [o]) = run h ++ [obs_at h o].
Proof.
  unfold run, obs_at, final. destruct (run_from_app h init [o]) as [_ B]. rewrite B. simpl.
  destruct (step (fst (run_from init h)) o) as [s1 b]. reflexivity.
Qed.

Lemma call_frame h cs o :
  forallb is_query cs = true -> is_fire o = false -> obs_at (h ++ cs) o = obs_at h o.
Proof.
  intros Q NFi. unfold obs_at. apply step_obs_cols; [|exact NFi].
  rewrite final_app. apply run_from_queries. exact Q.
Qed.

(* after any history and any further calls whatsoever, a good call runs its target with the value
   THIS call's payload decodes to (into a fresh value), and only with it *)
Lemma invoked_with_own_payload h cs k s route bytes dec c cb b mt seen :
  forallb is_query cs = true ->
  f4_ser (ss_built (scol_of (sfinal h) k)) s route dec cb = false ->
  expect_ser (ss_built (scol_of (sfinal h) k)) s route dec c = VGood mt seen ->
  exists v, decode dec (p_tid (msg_type mt)) = DOk v /\
    obs_at (h ++ cs) (OCallSer k s route bytes dec c cb b) =
    BCall (EvInvoke (m_uid mt) (Some v) ::
           (if cb && is_request mt then map EvComplete (owed b) else [])) false.
Proof.
  intros Q NF E. rewrite call_frame by (exact Q || reflexivity).
  destruct (expect_ser_good _ _ _ _ _ _ _ E) as [_ [_ [_ [v [Sv D]]]]]. exists v. split; [exact D|].
  unfold obs_at. simpl. destruct (tables_of_last_build h k) as [T _]. rewrite T.
  rewrite call_ser_trace by exact NF. rewrite E. subst seen. reflexivity.
Qed.

(* ---- kept completion functions: each answers ITS OWN call, exactly once ---- *)
Definition is_err (kd : fkind) : bool := match kd with FErr => true | _ => false end.

(* what running the kept completion function of caller w with kd delivers, and whether it panics *)
Definition deliver (w : caller) (kd : fkind) : list fev :=
  match w, kd with
  | KReq _, FBad => []
  | KReq rid, _ => [FRsp rid (RspDone (is_err kd))]
  | KCall pos, _ => [FCall pos (is_err kd)]
  end.
Definition escapes (w : caller) (kd : fkind) : bool :=
  match w, kd with KReq _, FBad => true | _, _ => false end.

Lemma fire_one_done w kd : fire_one (PD w true) kd = ([], false, PD w true).
Proof. reflexivity. Qed.

Lemma fire_one_fresh w kd :
  fire_one (PD w false) kd = (deliver w kd, escapes w kd, PD w (negb (escapes w kd))).
Proof. destruct w, kd; reflexivity. Qed.

Lemma fire_nth_none l : forall n kd, nth_error l n = None -> fire_nth l n kd = ([], false, l).
Proof.
  induction l as [|p r IH]; intros n kd E; [destruct n; reflexivity|].
  destruct n as [|m]; simpl in *; [discriminate|]. rewrite (IH m kd E). reflexivity.
Qed.

Lemma fire_nth_some l : forall n kd p,
  nth_error l n = Some p ->
  exists p', fire_nth l n kd = (fst (fst (fire_one p kd)), snd (fst (fire_one p kd)), firstn n l ++ p' :: skipn (Datatypes.S n) l)
             /\ p' = snd (fire_one p kd).
Proof.
  induction l as [|q r IH]; intros n kd p E; [destruct n; discriminate|].
  destruct n as [|m]; simpl in *.
  - inv E. destruct (fire_one p kd) as [[d e] p']. exists p'. split; reflexivity.
  - destruct (IH m kd p E) as [p' [F Ep]]. rewrite F. exists p'. split; [reflexivity | exact Ep].
Qed.

Lemma nth_error_replace {A} (l : list A) n x m :
  (n < length l)%nat ->
  nth_error (firstn n l ++ x :: skipn (Datatypes.S n) l) m =
  if Nat.eqb m n then Some x else nth_error l m.
Proof.
  revert n m. induction l as [|y r IH]; intros n m L; simpl in L; [lia|].
  destruct n as [|n']; destruct m as [|m']; simpl; try reflexivity.
  apply IH. lia.
Qed.

(* a consumed guard stays consumed, whatever happens later *)
Definition consumed (s : st) (n : nat) : Prop := exists w, nth_error (g_pend s) n = Some (PD w true).

Lemma consumed_app s n extra cols pos :
  consumed s n -> consumed (G cols (g_pend s ++ extra) pos) n.
Proof.
  intros [w E]. exists w. simpl. rewrite nth_error_app1; [exact E|].
  apply nth_error_Some. congruence.
Qed.

Lemma consumed_step s o n : consumed s n -> consumed (fst (step s o)) n.
Proof.
  intro C.
  destruct o as [k e op_|k|k r|k r|k sr r bytes dec c cb b|k r a c cb b|ks rid r bytes dec rawok cx b|m kd];
    simpl; try exact C; try (apply consumed_app; exact C).
  destruct (m <? 0); [exact C|].
  destruct C as [w E].
  destruct (nth_error (g_pend s) (Z.to_nat m)) as [p|] eqn:Em.
  - destruct (fire_nth_some _ _ kd _ Em) as [p' [F Ep]]. rewrite F. unfold consumed.
    cbn [fst g_pend]. exists w.
    rewrite nth_error_replace by (apply nth_error_Some; congruence).
    destruct (Nat.eqb_spec n (Z.to_nat m)) as [->|N]; [|exact E].
    rewrite Em in E. inv E. reflexivity.
  - rewrite (fire_nth_none _ _ kd Em). simpl. exists w. exact E.
Qed.

Lemma consumed_run ops : forall s n, consumed s n -> consumed (fst (run_from s ops)) n.
Proof.
  induction ops as [|o r IH]; intros s n C; simpl; [exact C|].
  pose proof (consumed_step s o n C) as C1. destruct (step s o) as [s1 b]. simpl in C1.
  specialize (IH s1 n C1). destruct (run_from s1 r) as [s2 bs]. exact IH.
Qed.

Lemma fire_obs s n kd :
  snd (step s (OFire (Z.of_nat n) kd)) =
  match nth_error (g_pend s) n with
  | Some p => BFire (fst (fst (fire_one p kd))) (snd (fst (fire_one p kd)))
  | None => BFire [] false
  end.
Proof.
  simpl. assert (L : (Z.of_nat n <? 0) = false) by (apply Z.ltb_ge; lia). rewrite L, Nat2Z.id.
  destruct (nth_error (g_pend s) n) as [p|] eqn:E.
  - destruct (fire_nth_some _ _ kd _ E) as [p' [F _]]. rewrite F. reflexivity.
  - rewrite (fire_nth_none _ _ kd E). reflexivity.
Qed.

(* running a kept completion function whose guard is consumed (its call was already completed:
   by the handler, by the recover, or by an earlier run) does nothing *)
Lemma fire_consumed h n h2 kd :
  consumed (final h) n -> obs_at (h ++ h2) (OFire (Z.of_nat n) kd) = BFire [] false.
Proof.
  intro C. unfold obs_at. rewrite fire_obs, final_app.
  destruct (consumed_run h2 _ _ C) as [w E]. rewrite E. reflexivity.
Qed.

(* otherwise it answers the call it was given to, with what it is run with, and is consumed
   (unless the caller's completion function panicked) *)
Lemma fire_own h n w kd :
  nth_error (g_pend (final h)) n = Some (PD w false) ->
  obs_at h (OFire (Z.of_nat n) kd) = BFire (deliver w kd) (escapes w kd) /\
  (escapes w kd = false -> consumed (final (h ++ [OFire (Z.of_nat n) kd])) n).
Proof.
  intro E. split.
  - unfold obs_at. rewrite fire_obs, E, fire_one_fresh. reflexivity.
  - intro NE. rewrite final_snoc. simpl.
    assert (L : (Z.of_nat n <? 0) = false) by (apply Z.ltb_ge; lia). rewrite L, Nat2Z.id.
    destruct (fire_nth_some _ _ kd _ E) as [p' [F Ep]]. rewrite F. unfold consumed.
    cbn [fst g_pend]. exists w.
    rewrite nth_error_replace by (apply nth_error_Some; congruence).
    rewrite Nat.eqb_refl, Ep, fire_one_fresh, NE. reflexivity.
Qed.

(* exactly once: whatever a run delivered, no later run of the same function delivers again *)
Lemma fire_once h n kd d e h2 kd' :
  obs_at h (OFire (Z.of_nat n) kd) = BFire d e -> d <> [] ->
  obs_at (h ++ OFire (Z.of_nat n) kd :: h2) (OFire (Z.of_nat n) kd') = BFire [] false.
Proof.
  intros O ND.
  replace (h ++ OFire (Z.of_nat n) kd :: h2) with ((h ++ [OFire (Z.of_nat n) kd]) ++ h2)
    by (rewrite <- app_assoc; reflexivity).
  apply fire_consumed.
  unfold obs_at in O. rewrite fire_obs in O.
  destruct (nth_error (g_pend (final h)) n) as [[w [|]]|] eqn:E.
  - rewrite fire_one_done in O. inv O. contradiction.
  - rewrite fire_one_fresh in O. inv O.
    apply (fire_own h n w kd E). destruct w, kd; try reflexivity; simpl in ND; contradiction.
  - inv O. contradiction.
Qed.

(* every kept completion function belongs to a call of the history that was given one *)
Definition is_cb_call (o : op) : bool :=
  match o with
  | OCallSer _ _ _ _ _ _ cb _ => cb
  | OCall _ _ _ _ cb _ => cb
  | _ => false
  end.

Definition who_ok (h : list op) (w : caller) : Prop :=
  match w with
  | KCall pos => 0 <= pos /\ exists o, nth_error h (Z.to_nat pos) = Some o /\ is_cb_call o = true
  | KReq rid => rid <> 0 /\ exists ks r bytes dec rawok cx b, In (ODispatch ks rid r bytes dec rawok cx b) h
  end.

Lemma who_ok_snoc h o w : who_ok h w -> who_ok (h ++ [o]) w.
Proof.
  destruct w as [pos|rid]; simpl.
  - intros [P [x [E C]]]. split; [exact P|]. exists x. split; [|exact C].
    rewrite nth_error_app1; [exact E|]. apply nth_error_Some. congruence.
  - intros [N [ks [r [by_ [dec [rw [cx [b I]]]]]]]]. split; [exact N|].
    exists ks, r, by_, dec, rw, cx, b. apply in_or_app. left. exact I.
Qed.

Lemma call_keeps_cb cs route c a cb b g : call_keeps cs route c a cb b = Some g -> cb = true.
Proof.
  unfold call_keeps. destruct (find_handler cs route) as [h|]; [|discriminate].
  destruct cb; [reflexivity|]. rewrite andb_false_r. discriminate.
Qed.

Lemma call_ser_keeps_cb cs s route dec c cb b g : call_ser_keeps cs s route dec c cb b = Some g -> cb = true.
Proof.
  unfold call_ser_keeps. destruct s; try discriminate;
    (destruct (get_arg_type cs route) as [t|]; [|discriminate]);
    (destruct (negb (p_ptr t)); [discriminate|]);
    (destruct (decode dec (p_tid t)); [|discriminate]); apply call_keeps_cb.
Qed.

Lemma fire_nth_who l : forall n kd, map pd_who (snd (fire_nth l n kd)) = map pd_who l.
Proof.
  induction l as [|p r IH]; intros n kd; [destruct n; reflexivity|].
  destruct n as [|m]; simpl.
  - destruct (fire_one p kd) as [[d e] p'] eqn:F. simpl. f_equal.
    unfold fire_one in F. destruct (pd_done p); [inv F; reflexivity|].
    destruct (pd_who p) eqn:W, kd; inv F; simpl; congruence.
  - specialize (IH m kd). destruct (fire_nth r m kd) as [[d e] r']. simpl in *. rewrite IH. reflexivity.
Qed.

Lemma owners h :
  g_pos (final h) = Z.of_nat (length h) /\ Forall (who_ok h) (map pd_who (g_pend (final h))).
Proof.
  induction h as [|o h IH] using rev_ind; [split; [reflexivity | constructor]|].
  destruct IH as [P F]. rewrite final_snoc, app_length, Nat2Z.inj_add. simpl length.
  assert (F' : Forall (who_ok (h ++ [o])) (map pd_who (g_pend (final h)))).
  { eapply Forall_impl; [|exact F]. intro w. apply who_ok_snoc. }
  assert (Here : forall x, is_cb_call x = true -> o = x -> who_ok (h ++ [o]) (KCall (g_pos (final h)))).
  { intros x C ->. simpl. split; [lia|]. exists x. split; [|exact C].
    rewrite P, Nat2Z.id, nth_error_app2, Nat.sub_diag by lia. reflexivity. }
  destruct o as [k e op_|k|k r|k r|k sr r bytes dec c cb b|k r a c cb b|ks rid r bytes dec rawok cx b|n kd];
    simpl; try (split; [lia | exact F']).
  - split; [lia|]. rewrite map_app. apply Forall_app. split; [exact F'|].
    destruct (call_ser_keeps (s_cs (col (final h) k)) sr r dec c cb b) as [g|] eqn:K; [|constructor].
    constructor; [|constructor]. apply call_ser_keeps_cb in K. subst cb.
    apply (Here (OCallSer k sr r bytes dec c true b) eq_refl eq_refl).
  - split; [lia|]. rewrite map_app. apply Forall_app. split; [exact F'|].
    destruct (call_keeps (s_cs (col (final h) k)) r c a cb b) as [g|] eqn:K; [|constructor].
    constructor; [|constructor]. apply call_keeps_cb in K. subst cb.
    apply (Here (OCall k r a c true b) eq_refl eq_refl).
  - split; [lia|]. rewrite map_app. apply Forall_app. split; [exact F'|].
    destruct (dispatch_keeps (tables (final h) ks) rid r dec cx b) as [g|] eqn:K; [|constructor].
    constructor; [|constructor]. simpl. split.
    + unfold dispatch_keeps in K. destruct (is_empty r); [discriminate|].
      destruct (find _ _); [|discriminate]. apply call_ser_keeps_cb in K.
      apply negb_true_iff, Z.eqb_neq in K. exact K.
    + exists ks, r, bytes, dec, rawok, cx, b. apply in_or_app. right. left. reflexivity.
  - destruct (n <? 0); [split; [simpl; lia | exact F']|].
    pose proof (fire_nth_who (g_pend (final h)) (Z.to_nat n) kd) as W.
    destruct (fire_nth (g_pend (final h)) (Z.to_nat n) kd) as [[d e] l]. simpl in *.
    split; [lia|]. rewrite W. exact F'.
Qed.

Lemma kept_owner h n p :
  nth_error (g_pend (final h)) n = Some p -> who_ok h (pd_who p).
Proof.
  intro E. destruct (owners h) as [_ F]. rewrite Forall_forall in F. apply F.
  apply in_map_iff. exists p. split; [reflexivity|]. eapply nth_error_In. exact E.
Qed.

(* ---- frame: a rejected registration leaves no trace ---- *)
Lemma new_service_rejected cs eo : rejected cs eo = true -> new_service cs eo = cs.
Proof.
  destruct eo as [e o]. unfold rejected, new_service. rewrite group_name_spec.
  destruct (sget (spec_group (e, o)) cs); [reflexivity|].
  rewrite extract_servable. destruct (servable_b (e, o)); [discriminate | reflexivity].
Qed.

Lemma build_app es1 es2 : build (es1 ++ es2) = fold_left new_service es2 (build es1).
Proof. unfold build. apply fold_left_app. Qed.

(* wherever it stands among the registrations *)
Lemma rejected_frame pre eo post :
  rejected (build pre) eo = true -> build (pre ++ eo :: post) = build (pre ++ post).
Proof.
  intro R. rewrite !build_app. simpl. rewrite (new_service_rejected _ _ R). reflexivity.
Qed.

(* what "rejected" means, in terms of the registrations before it *)
Lemma rejected_spec pre eo :
  rejected (build pre) eo = true <->
  (exists w, owns pre (spec_group eo) w) \/ ~ servable eo.
Proof.
  unfold rejected. rewrite sget_build.
  destruct (owner_b pre (spec_group eo)) as [w|] eqn:Ow; simpl.
  - split; [|reflexivity]. intros _. left. exists w. apply owner_b_owns. exact Ow.
  - rewrite negb_true_iff. split.
    + intro Sv. right. intro S. apply servable_b_spec in S. congruence.
    + intros [[w Hw]|NS].
      * apply owner_b_owns in Hw. congruence.
      * destruct (servable_b eo) eqn:Sv; [|reflexivity].
        exfalso. apply NS. apply servable_b_spec. exact Sv.
Qed.

(* the tables are those of the accepted registrations alone *)
Lemma fold_accepted es : forall cs,
  fold_left new_service es cs = fold_left new_service (accepted_from cs es) cs.
Proof.
  induction es as [|eo r IH]; intro cs; simpl; [reflexivity|].
  destruct (rejected cs eo) eqn:R.
  - rewrite (new_service_rejected _ _ R). apply IH.
  - simpl. apply IH.
Qed.

Lemma build_accepted es : build es = build (accepted es).
Proof. unfold build, accepted. apply fold_accepted. Qed.

(* and none of the accepted ones is rejected when taken alone, in order *)
Lemma accepted_from_idem es : forall cs, accepted_from cs (accepted_from cs es) = accepted_from cs es.
Proof.
  induction es as [|eo r IH]; intro cs; simpl; [reflexivity|].
  destruct (rejected cs eo) eqn:R; [apply IH|].
  simpl. rewrite R. rewrite IH. reflexivity.
Qed.

Lemma resolve_accepted es route : resolve es route = resolve (accepted es) route.
Proof.
  pose proof (find_handler_resolve es route) as A.
  pose proof (find_handler_resolve (accepted es) route) as B.
  rewrite <- build_accepted in B. rewrite A in B.
  destruct (resolve es route) as [m|], (resolve (accepted es) route) as [m'|]; simpl in B;
    try discriminate; [|reflexivity].
  inv B. reflexivity.
Qed.

(* history level: registering an entry that is rejected (with respect to what its collection has
   registered so far) changes no later observation - whatever is registered, built, queried or
   called afterwards *)
Definition Same (k : Z) (reg : list eopt) (eo : eopt) (s s' : st) : Prop :=
  (forall j, s_cs (col s j) = s_cs (col s' j) /\
     if j =? k then exists more, s_entries (col s j) = reg ++ eo :: more /\ s_entries (col s' j) = reg ++ more
     else s_entries (col s j) = s_entries (col s' j)) /\
  g_pend s = g_pend s' /\ g_pos s = g_pos s'.

Lemma same_tables k reg eo s s' ks : Same k reg eo s s' -> tables s ks = tables s' ks.
Proof. intros [R _]. apply map_ext. intro j. apply R. Qed.

Lemma same_step k reg eo s s' o :
  rejected (build reg) eo = true -> Same k reg eo s s' ->
  snd (step s o) = snd (step s' o) /\ Same k reg eo (fst (step s o)) (fst (step s' o)).
Proof.
  intros Rj [R [Rp Rn]].
  destruct o as [j e op_|j|j r|j r|j sr r bytes dec c cb b|j r a c cb b|ks rid r bytes dec rawok cx b|n kd];
    simpl.
  - split; [reflexivity|]. split; [|split; simpl; congruence].
    intro i. unfold col in *. simpl. unfold upd. destruct (i =? j) eqn:Eij; [|apply R].
    apply Z.eqb_eq in Eij. subst i. destruct (R j) as [Rc Re]. simpl. split; [exact Rc|].
    destruct (j =? k).
    + destruct Re as [more [A B]]. exists (more ++ [(e, op_)]).
      rewrite A, B. split; [rewrite <- app_assoc; reflexivity | rewrite <- app_assoc; reflexivity].
    + rewrite Re. reflexivity.
  - split; [reflexivity|]. split; [|split; simpl; congruence].
    intro i. unfold col in *. simpl. unfold upd. destruct (i =? j) eqn:Eij; [|apply R].
    apply Z.eqb_eq in Eij. subst i. destruct (R j) as [Rc Re]. simpl.
    destruct (j =? k).
    + destruct Re as [more [A B]]. split; [|exists more; auto].
      rewrite A, B. apply rejected_frame. exact Rj.
    + split; [rewrite Re; reflexivity | exact Re].
  - destruct (R j) as [Rc _]. rewrite Rc. split; [reflexivity|].
    split; [exact R | split; simpl; congruence].
  - destruct (R j) as [Rc _]. rewrite Rc. split; [reflexivity|].
    split; [exact R | split; simpl; congruence].
  - destruct (R j) as [Rc _]. rewrite Rc, Rp, Rn. split; [reflexivity|].
    split; [exact R | split; simpl; congruence].
  - destruct (R j) as [Rc _]. rewrite Rc, Rp, Rn. split; [reflexivity|].
    split; [exact R | split; simpl; congruence].
  - rewrite (same_tables k reg eo s s' ks (conj R (conj Rp Rn))), Rp. split; [reflexivity|].
    split; [exact R | split; simpl; congruence].
  - rewrite Rp. destruct (n <? 0); [split; [reflexivity | split; [exact R | split; simpl; congruence]]|].
    destruct (fire_nth (g_pend s') (Z.to_nat n) kd) as [[d e] l]. split; [reflexivity|].
    split; [exact R | split; simpl; congruence].
Qed.

Lemma same_run k reg eo ops : forall s s',
  rejected (build reg) eo = true -> Same k reg eo s s' ->
  snd (run_from s ops) = snd (run_from s' ops).
Proof.
  induction ops as [|o r IH]; intros s s' Rj R; simpl; [reflexivity|].
  destruct (same_step k reg eo s s' o Rj R) as [Eo R1].
  destruct (step s o) as [s1 b]. destruct (step s' o) as [s1' b']. simpl in *. subst b'.
  specialize (IH s1 s1' Rj R1).
  destruct (run_from s1 r) as [s2 bs]. destruct (run_from s1' r) as [s2' bs']. simpl in *.
  rewrite IH. reflexivity.
Qed.

Lemma run_from_length ops : forall s, length (snd (run_from s ops)) = length ops.
Proof.
  induction ops as [|x r IH]; intro s0; simpl; [reflexivity|].
  destruct (step s0 x) as [s1 b]. specialize (IH s1).
  destruct (run_from s1 r) as [s2 bs]. simpl in *. rewrite IH. reflexivity.
Qed.

Lemma run_from_cons s o r :
  snd (run_from s (o :: r)) = snd (step s o) :: snd (run_from (fst (step s o)) r).
Proof. simpl. destruct (step s o) as [s1 b]. simpl. destruct (run_from s1 r). reflexivity. Qed.

(* a rejected Register is a no-op: every later observation is what it is when a plain query
   (HasMethod of the empty route) stands in its place *)
Lemma rejected_registration_leaves_no_trace h1 k e o h2 :
  rejected (build (s_entries (col (final h1) k))) (e, o) = true ->
  skipn (Datatypes.S (length h1)) (run (h1 ++ OReg k e o :: h2)) =
  skipn (Datatypes.S (length h1)) (run (h1 ++ OHas k [] :: h2)).
Proof.
  intro Rj. unfold run.
  destruct (run_from_app h1 init (OReg k e o :: h2)) as [_ B]. rewrite B.
  destruct (run_from_app h1 init (OHas k [] :: h2)) as [_ B']. rewrite B'.
  pose proof (run_from_length h1 init) as L.
  rewrite <- L. rewrite !skipn_app.
  replace (Datatypes.S (length (snd (run_from init h1))) - length (snd (run_from init h1)))%nat with 1%nat by lia.
  f_equal. fold (final h1). rewrite !run_from_cons. simpl skipn.
  apply (same_run k (s_entries (col (final h1) k)) (e, o)); [exact Rj|].
  split; [|split; reflexivity].
  intro j. unfold col. simpl. unfold upd. destruct (j =? k) eqn:Ejk.
  - apply Z.eqb_eq in Ejk. subst j. simpl. split; [reflexivity|].
    exists []. rewrite app_nil_r. split; reflexivity.
  - split; reflexivity.
Qed.

(* a route with two or more dots (or none of the two shapes) reaches nothing, whatever group and
   method names - with or without dots - are registered *)
Lemma malformed_never_resolves es route :
  (2 < length (split_dot route))%nat -> resolve es route = None.
Proof.
  unfold resolve, split_route. intro L.
  destruct (split_dot route) as [|a [|b [|c r]]]; simpl in L; try lia; reflexivity.
Qed.

Lemma resolves_one_dot es route mt :
  resolve es route = Some mt ->
  exists g m, (split_dot route = [g; m] \/ (split_dot route = [m] /\ g = inner_group)) /\
              split_route route = Some (g, m).
Proof.
  unfold resolve, split_route.
  destruct (split_dot route) as [|a [|b [|c r]]]; try discriminate; intros _.
  - exists inner_group, a. split; [right; split; reflexivity | reflexivity].
  - exists a, b. split; [left; reflexivity | reflexivity].
Qed.

(* ---- readable corollaries ---- *)
Lemma invoked_once es s route dec c cb b mt seen :
  f4_ser es s route dec cb = false ->
  expect_ser es s route dec c = VGood mt seen ->
  exists tr v, call_ser (build es) s route dec c cb b = Done tr /\
    invocations tr = [(m_uid mt, Some v)] /\ seen = Some v /\
    targets es route mt /\ decode dec (p_tid (msg_type mt)) = DOk v.
Proof.
  intros NF E. destruct (expect_ser_good _ _ _ _ _ _ _ E) as [_ [R [_ [v [Sv D]]]]].
  exists (expected_trace (VGood mt seen) cb b), v.
  split; [rewrite call_ser_trace by exact NF; rewrite E; reflexivity|].
  split; [unfold expected_trace; rewrite invocations_expected; subst seen; reflexivity|].
  split; [exact Sv|]. split; [apply resolve_targets; exact R | exact D].
Qed.

Lemma not_invoked es s route dec c cb b :
  expect_ser es s route dec c = VFail ->
  exists tr, call_ser (build es) s route dec c cb b = Done tr /\ invocations tr = [].
Proof.
  intro E. destruct (f4_ser es s route dec cb) eqn:F.
  - pose proof (f4_ser_cb _ _ _ _ _ F) as ->. rewrite call_ser_f4 by exact F.
    exists []. split; reflexivity.
  - rewrite call_ser_trace by exact F. rewrite E. eexists. split; [reflexivity|].
    apply (invocations_expected false VFail).
Qed.

Lemma completes_once_partial es s route dec c b :
  f4_ser es s route dec true = false ->
  exists tr, call_ser (build es) s route dec c true b = Done tr /\
    completions tr = match expect_ser es s route dec c with VFail => [true] | VGood _ _ => owed b end.
Proof.
  intro NF. rewrite call_ser_trace by exact NF. eexists. split; [reflexivity|].
  unfold expected_trace. rewrite completions_expected.
  destruct (expect_ser es s route dec c) as [|mt seen] eqn:E; [reflexivity|].
  rewrite (good_is_request_ser _ _ _ _ _ _ _ NF E). reflexivity.
Qed.

Lemma completes_exactly_once es s route dec c b :
  f4_ser es s route dec true = false -> b <> BNever -> b <> BDefer ->
  exists tr, call_ser (build es) s route dec c true b = Done tr /\
    length (completions tr) = 1%nat /\
    (expect_ser es s route dec c = VFail -> completions tr = [true]).
Proof.
  intros NF NB ND. destruct (completes_once_partial es s route dec c b NF) as [tr [D Cm]].
  exists tr. split; [exact D|]. rewrite Cm.
  destruct (expect_ser es s route dec c); split; auto.
  - apply (owed_once false b NB ND).
  - discriminate.
Qed.

Lemma no_cb_no_completion es s route dec c b :
  exists tr, call_ser (build es) s route dec c false b = Done tr /\ completions tr = [].
Proof.
  assert (NF : f4_ser es s route dec false = false).
  { destruct (f4_ser es s route dec false) eqn:F; [|reflexivity].
    apply f4_ser_cb in F. discriminate. }
  rewrite call_ser_trace by exact NF. eexists. split; [reflexivity|].
  unfold expected_trace. rewrite completions_expected.
  destruct (expect_ser es s route dec c); reflexivity.
Qed.

Lemma call_completes_once_partial es route c a b :
  f4_direct es route true = false ->
  completions (call (build es) route c a true b) =
  match expect_call es route c a with VFail => [true] | VGood _ _ => owed b end /\
  invocations (call (build es) route c a true b) =
  match expect_call es route c a with VFail => [] | VGood mt seen => [(m_uid mt, seen)] end.
Proof.
  intro NF. rewrite call_trace by exact NF. unfold expected_trace.
  rewrite completions_expected, invocations_expected. split; [|reflexivity].
  destruct (expect_call es route c a) as [|mt seen] eqn:E; [reflexivity|].
  rewrite (good_is_request_direct _ _ _ _ _ _ NF E). reflexivity.
Qed.

(* ---- witnesses (non-vacuity, and the refutation of the unrestricted completion theorem) ---- *)
Definition ex_pctx : param := P true true false false 1.     (* *api.DummyContext *)
Definition ex_pmsg : param := P true false false false 10.   (* *MsgA *)
Definition ex_pval : param := P false false false false 13.  (* MsgA *)
Definition ex_pcb : param := P false false true true 20.     (* HandlerCBFunc *)
Definition ex_join : meth := M 1 [74; 111; 105; 110] true [ex_pctx; ex_pmsg; ex_pcb].   (* Join *)
Definition ex_note : meth := M 2 [78; 111; 116; 101] true [ex_pctx; ex_pmsg].           (* Note *)
Definition ex_bad : meth := M 3 [66; 97; 100] true [ex_pctx; ex_pval; ex_pcb].          (* Bad *)
Definition ex_entry : entry := E 0 [90; 111; 111] [ex_bad; ex_join; ex_note].           (* Zoo *)
Definition ex_opts : opts := O [104; 105] (Some nf_lower).                              (* "hi", ToLower *)
Definition ex_es : list eopt := [(ex_entry, ex_opts)].
Definition ex_r_join : str := [104; 105; 46; 106; 111; 105; 110].   (* hi.join *)
Definition ex_r_note : str := [104; 105; 46; 110; 111; 116; 101].   (* hi.note *)
Definition ex_r_bad : str := [104; 105; 46; 98; 97; 100].           (* hi.bad *)
Definition ex_dec : list (Z * dres) := [(10, DOk 7)].
Definition ex_hist : list op :=
  [OReg 0 ex_entry ex_opts; OBuild 0; OHas 0 ex_r_join; OHas 0 ex_r_bad; OHas 1 ex_r_join;
   OCallSer 0 SJson ex_r_join [] ex_dec CNil true BOkPanic;
   OCallSer 0 SJson ex_r_join [] [] CNil true BOk;
   OCallSer 0 SJson ex_r_note [] ex_dec CNil false BOk;
   ODispatch [1; 0] 5 ex_r_join [] ex_dec true (CTyp 1) BOkBad;
   ODispatch [1; 0] 6 ex_r_bad [] ex_dec false (CTyp 1) BOk;
   ODispatch [1; 0] 7 ex_r_join [] ex_dec true (CTyp 2) BOk;
   ODispatch [1; 0] 0 ex_r_note [] ex_dec true (CTyp 1) BOk].
Definition ex_hist_f4 : list op :=
  [OReg 0 ex_entry ex_opts; OBuild 0;
   OCallSer 0 SJson ex_r_note [] ex_dec CNil true BOk].
Definition ex_hist_f4d : list op :=
  [OReg 0 ex_entry ex_opts; OBuild 0;
   ODispatch [0] 9 ex_r_note [] ex_dec true (CTyp 1) BOk].

Lemma completes_once_refuted :
  exists es s route dec c b mt v,
    b <> BNever /\ expect_ser es s route dec c = VGood mt (Some v) /\
    call_ser (build es) s route dec c true b = Done [].
Proof.
  exists ex_es, SJson, ex_r_note, ex_dec, CNil, BOk, ex_note, 7.
  split; [discriminate|]. split; vm_compute; reflexivity.
Qed.

Lemma dispatch_one_response_refuted :
  exists ess rid route dec rawok cx b es mt v,
    rid <> 0 /\ b <> BNever /\ first_resolving ess route = Some es /\
    expect_ser es SProto route dec cx = VGood mt (Some v) /\
    d_rsp (handle_request (map build ess) rid route dec rawok cx b) = [].
Proof.
  exists [ex_es], 9, ex_r_note, ex_dec, true, (CTyp 1), BOk, ex_es, ex_note, 7.
  split; [discriminate|]. split; [discriminate|]. repeat split; vm_compute; reflexivity.
Qed.

Lemma history_refuted : exists h, has_f4 h = true /\ ~ holds h (run h).
Proof.
  exists ex_hist_f4. split; [vm_compute; reflexivity|].
  unfold holds. vm_compute. discriminate.
Qed.

Lemma history_refuted_dispatch : exists h, has_f4 h = true /\ ~ holds h (run h).
Proof.
  exists ex_hist_f4d. split; [vm_compute; reflexivity|].
  unfold holds. vm_compute. discriminate.
Qed.
