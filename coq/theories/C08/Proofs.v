(* C08 - lemmas and proofs. *)
From Cell2V Require Import Common.Tac Common.ListX Common.AList C08.Model C08.Spec.

(* ------------------------------------------------------------------ association lists *)
Section ALX.
  Context {V : Type}.

  Lemma aget_aset k' k (v : V) m :
    aget k' (aset k v m) = if Z.eqb k' k then Some v else aget k' m.
  Proof.
    destruct (Z.eqb_spec k' k) as [E|N].
    - subst. apply aget_aset_same.
    - apply aget_aset_other. exact N.
  Qed.

  Lemma aget_adel k' k (m : alist V) :
    aget k' (adel k m) = if Z.eqb k' k then None else aget k' m.
  Proof.
    destruct (Z.eqb_spec k' k) as [E|N].
    - subst. apply aget_adel_same.
    - apply aget_adel_other. exact N.
  Qed.

  Lemma lb_lt_none k k' (m : alist V) : k < k' -> lb k' m -> aget k m = None.
  Proof. intros H L. apply lb_not_in. apply lb_trans with k'; assumption. Qed.

  (* sorted association lists are canonical *)
  Lemma sorted_ext (a b : alist V) :
    sorted a -> sorted b -> (forall k, aget k a = aget k b) -> a = b.
  Proof.
    revert b. induction a as [|[k1 v1] ra IH]; intros [|[k2 v2] rb] Sa Sb H.
    - reflexivity.
    - specialize (H k2). simpl in H. rewrite Z.eqb_refl in H. discriminate.
    - specialize (H k1). simpl in H. rewrite Z.eqb_refl in H. discriminate.
    - simpl in Sa, Sb. destruct Sa as [La Sa]. destruct Sb as [Lb Sb].
      assert (E : k1 = k2).
      { destruct (Z.lt_trichotomy k1 k2) as [L|[E|L]]; [|exact E|].
        - pose proof (H k1) as H1. simpl in H1. rewrite Z.eqb_refl in H1.
          destruct (Z.eqb_spec k1 k2) as [E|_]; [exact E|].
          rewrite (lb_lt_none k1 k2 rb L Lb) in H1. discriminate.
        - pose proof (H k2) as H2. simpl in H2. rewrite Z.eqb_refl in H2.
          destruct (Z.eqb_spec k2 k1) as [E|_]; [symmetry; exact E|].
          rewrite (lb_lt_none k2 k1 ra L La) in H2. discriminate. }
      subst k2.
      pose proof (H k1) as H1. simpl in H1. rewrite Z.eqb_refl in H1. inv H1.
      f_equal. apply IH; [exact Sa | exact Sb |].
      intro k. destruct (Z.eqb_spec k k1) as [E|N].
      + subst. rewrite (lb_not_in _ _ La), (lb_not_in _ _ Lb). reflexivity.
      + specialize (H k). simpl in H. destruct (Z.eqb_spec k k1); [contradiction | exact H].
  Qed.

  Lemma sorted_nil : sorted (@nil (Z * V)).
  Proof. exact I. Qed.
End ALX.

Lemma find_app {A} (f : A -> bool) l1 l2 :
  find f (l1 ++ l2) = match find f l1 with Some x => Some x | None => find f l2 end.
Proof.
  induction l1 as [|x r IH]; simpl; [reflexivity|]. destruct (f x); [reflexivity | exact IH].
Qed.

Lemma find_none_iff {A} (f : A -> bool) l : find f l = None <-> forall x, In x l -> f x = false.
Proof.
  induction l as [|y r IH]; simpl.
  - split; [intros _ x [] | reflexivity].
  - destruct (f y) eqn:E.
    + split; [discriminate | intro H; rewrite (H y) in E; [discriminate | auto]].
    + rewrite IH. split.
      * intros H x [->|I]; [exact E | auto].
      * intros H x I. auto.
Qed.

Lemma find_flat_map_some {A B} (f : B -> bool) (g : A -> list B) l x :
  find f (flat_map g l) = Some x -> exists y, In y l /\ find f (g y) = Some x.
Proof.
  induction l as [|y r IH]; simpl; [discriminate|].
  rewrite find_app. destruct (find f (g y)) eqn:E.
  - intro H. inv H. exists y. auto.
  - intro H. destruct (IH H) as [z [I F]]. exists z. auto.
Qed.

(* ================================================================== part A *)
Definition keyed (m : alist node) : Prop := forall k nd, aget k m = Some nd -> nid nd = k.

Lemma apply_changes_get mem ch k :
  aget k (apply_changes mem ch) =
  match aget k ch with
  | Some n => if nalive n then Some n else None
  | None => aget k mem
  end.
Proof.
  induction ch as [|[k0 n] r IH]; simpl; [reflexivity|].
  destruct (nalive n) eqn:A.
  - rewrite aget_aset. destruct (Z.eqb k k0); [rewrite A; reflexivity | exact IH].
  - rewrite aget_adel. destruct (Z.eqb k k0); [rewrite A; reflexivity | exact IH].
Qed.

Lemma apply_changes_sorted mem ch : sorted mem -> sorted (apply_changes mem ch).
Proof.
  intro S. induction ch as [|[k0 n] r IH]; simpl; [exact S|].
  destruct (nalive n); [apply sorted_aset | apply sorted_adel]; exact IH.
Qed.

Lemma step_batch_sorted self mem b : sorted mem -> sorted (step_batch self mem b).
Proof. apply apply_changes_sorted. Qed.

Lemma fold_sstep_sorted evs m : sorted m -> sorted (fold_left sstep evs m).
Proof.
  revert m. induction evs as [|e r IH]; intros m S; simpl; [exact S|].
  apply IH. destruct e; simpl; [apply sorted_aset | apply sorted_adel |]; exact S.
Qed.

Lemma listed_from_sorted l m : sorted m -> sorted (fold_left (fun m n => aset (nid n) n m) l m).
Proof.
  revert m. induction l as [|n r IH]; intros m S; simpl; [exact S|].
  apply IH. apply sorted_aset. exact S.
Qed.

Lemma listed_sorted l : sorted (listed l).
Proof. apply listed_from_sorted. exact I. Qed.

Lemma listed_from_keyed l m : keyed m -> keyed (fold_left (fun m n => aset (nid n) n m) l m).
Proof.
  revert m. induction l as [|n r IH]; intros m K; simpl; [exact K|].
  apply IH. intros k nd. rewrite aget_aset.
  destruct (Z.eqb_spec k (nid n)) as [E|N]; [intro H; inv H; reflexivity | apply K].
Qed.

Lemma listed_keyed l : keyed (listed l).
Proof. apply listed_from_keyed. intros k nd H. discriminate. Qed.

Lemma of_listing_listed l : of_listing l = listed l.
Proof. reflexivity. Qed.

(* the code's members [mem] versus the plain key space [m0] *)
Record rel (self : node) (mem m0 : alist node) : Prop := {
  rel_self : aget (nid self) mem = Some self;
  rel_other : forall k, k <> nid self -> aget k mem = aget k m0;
  rel_keyed : keyed mem;
  rel_sorted : sorted mem
}.

(* while one response is handled: changes [ch] versus the key space [m] after the events
   handled so far *)
Record brel (self : node) (mem ch m : alist node) : Prop := {
  br_self : aget (nid self) ch = None;
  br_other : forall k, k <> nid self -> aget k (apply_changes mem ch) = aget k m;
  br_keyed : keyed ch
}.

Lemma handle_ev_rel self mem m0 ch m e :
  rel self mem m0 -> brel self mem ch m -> conform_ev e ->
  brel self mem (handle_ev self mem ch e) (sstep m e).
Proof.
  intros R B C. destruct R as [Rs Ro Rk _]. destruct B as [Bs Bo Bk].
  destruct e as [k n|k|k v]; simpl in *.
  - destruct C as [Ck Ca]. subst k.
    destruct (Z.eqb_spec (nid self) (nid n)) as [E|N].
    + constructor; [exact Bs | | exact Bk].
      intros k Hk. rewrite aget_aset, Bo by exact Hk.
      destruct (Z.eqb_spec k (nid n)); [congruence | reflexivity].
    + constructor.
      * rewrite aget_aset. destruct (Z.eqb_spec (nid self) (nid n)); [contradiction | exact Bs].
      * intros k Hk. rewrite apply_changes_get, !aget_aset.
        destruct (Z.eqb_spec k (nid n)) as [E|N2].
        -- rewrite Ca. reflexivity.
        -- rewrite <- Bo by exact Hk. rewrite apply_changes_get. reflexivity.
      * intros k nd. rewrite aget_aset.
        destruct (Z.eqb_spec k (nid n)) as [E|N2]; [intro H; inv H; reflexivity | apply Bk].
  - destruct (aget k mem) as [nd|] eqn:G.
    + pose proof (Rk _ _ G) as Kn.
      destruct (Z.eqb_spec (nid self) (nid nd)) as [E|N].
      * constructor; [exact Bs | | exact Bk].
        intros k' Hk. rewrite aget_adel, Bo by exact Hk.
        destruct (Z.eqb_spec k' k); [congruence | reflexivity].
      * constructor.
        -- rewrite aget_aset. destruct (Z.eqb_spec (nid self) k); [congruence | exact Bs].
        -- intros k' Hk. rewrite apply_changes_get, aget_aset, aget_adel.
           destruct (Z.eqb_spec k' k) as [E|N2]; [reflexivity|].
           rewrite <- Bo by exact Hk. rewrite apply_changes_get. reflexivity.
        -- intros k' nd'. rewrite aget_aset.
           destruct (Z.eqb_spec k' k) as [E|N2]; [intro H; inv H; simpl; congruence | apply Bk].
    + constructor.
      * rewrite aget_adel. destruct (Z.eqb (nid self) k); [reflexivity | exact Bs].
      * intros k' Hk. rewrite apply_changes_get, !aget_adel.
        destruct (Z.eqb_spec k' k) as [E|N2]; [subst; exact G|].
        rewrite <- Bo by exact Hk. rewrite apply_changes_get. reflexivity.
      * intros k' nd'. rewrite aget_adel. destruct (Z.eqb k' k); [discriminate | apply Bk].
  - constructor; assumption.
Qed.

Lemma handle_batch_rel self mem m0 b :
  rel self mem m0 -> Forall conform_ev b ->
  forall ch m, brel self mem ch m ->
  brel self mem (fold_left (handle_ev self mem) b ch) (fold_left sstep b m).
Proof.
  intros R. induction b as [|e r IH]; intros F ch m B; simpl; [exact B|].
  inv F. apply IH; [assumption|]. eapply handle_ev_rel; eassumption.
Qed.

Lemma step_batch_rel self mem m0 b :
  rel self mem m0 -> Forall conform_ev b ->
  rel self (step_batch self mem b) (fold_left sstep b m0).
Proof.
  intros R F.
  assert (B0 : brel self mem [] m0).
  { constructor; [reflexivity | | intros k nd H; discriminate].
    intros k Hk. simpl. apply (rel_other _ _ _ R). exact Hk. }
  pose proof (handle_batch_rel self mem m0 b R F [] m0 B0) as B.
  fold (handle_batch self mem b) in B. destruct B as [Bs Bo Bk].
  unfold step_batch. constructor.
  - rewrite apply_changes_get, Bs. apply (rel_self _ _ _ R).
  - exact Bo.
  - intros k nd. rewrite apply_changes_get.
    destruct (aget k (handle_batch self mem b)) as [n|] eqn:G.
    + destruct (nalive n); [intro H; inv H; apply (Bk _ _ G) | discriminate].
    + apply (rel_keyed _ _ _ R).
  - apply apply_changes_sorted. apply (rel_sorted _ _ _ R).
Qed.

Lemma init_rel self listing : rel self (init_members self listing) (listed listing).
Proof.
  unfold init_members. rewrite of_listing_listed. constructor.
  - apply aget_aset_same.
  - intros k Hk. apply aget_aset_other. exact Hk.
  - intros k nd. rewrite aget_aset.
    destruct (Z.eqb_spec k (nid self)) as [E|N]; [intro H; inv H; reflexivity | apply listed_keyed].
  - apply sorted_aset. apply listed_sorted.
Qed.

Lemma fold_batches_rel self bs : forall mem m0,
  rel self mem m0 -> Forall conform_ev (concat bs) ->
  rel self (fold_left (step_batch self) bs mem) (fold_left sstep (concat bs) m0).
Proof.
  induction bs as [|b r IH]; intros mem m0 R F; simpl in *; [exact R|].
  apply Forall_app in F. destruct F as [Fb Fr].
  rewrite fold_left_app. apply IH; [|exact Fr]. apply step_batch_rel; assumption.
Qed.

Lemma rel_eq self mem m0 : rel self mem m0 -> sorted m0 -> mem = aset (nid self) self m0.
Proof.
  intros R S. apply sorted_ext.
  - apply (rel_sorted _ _ _ R).
  - apply sorted_aset. exact S.
  - intro k. rewrite aget_aset. destruct (Z.eqb_spec k (nid self)) as [E|N].
    + subst. apply (rel_self _ _ _ R).
    + apply (rel_other _ _ _ R). exact N.
Qed.

Theorem fold_eq_implied self listing bs :
  Forall conform_ev (concat bs) ->
  fold_watch self listing bs = implied self listing (concat bs).
Proof.
  intro F. unfold fold_watch, implied.
  apply rel_eq.
  - apply fold_batches_rel; [apply init_rel | exact F].
  - apply fold_sstep_sorted. apply listed_sorted.
Qed.

Lemma publications_rel self listing : forall bs mem seen,
  rel self mem (fold_left sstep seen (listed listing)) -> Forall conform_ev (concat bs) ->
  publications self mem bs = implied_pubs self listing seen bs.
Proof.
  induction bs as [|b r IH]; intros mem seen R F; simpl in *; [reflexivity|].
  apply Forall_app in F. destruct F as [Fb Fr].
  destruct b as [|e b']; simpl is_nil; cbv iota.
  - apply IH; assumption.
  - assert (R' : rel self (step_batch self mem (e :: b'))
                     (fold_left sstep (seen ++ e :: b') (listed listing))).
    { rewrite fold_left_app. apply step_batch_rel; assumption. }
    f_equal.
    + unfold implied. apply rel_eq; [exact R'|].
      apply fold_sstep_sorted. apply listed_sorted.
    + apply IH; assumption.
Qed.

Theorem publications_eq self listing bs :
  Forall conform_ev (concat bs) ->
  publications self (init_members self listing) bs = implied_pubs self listing [] bs.
Proof. intro F. apply publications_rel; [apply init_rel | exact F]. Qed.

Theorem self_present self listing bs :
  Forall conform_ev (concat bs) ->
  aget (nid self) (fold_watch self listing bs) = Some self /\
  In (member_of self) (publish (fold_watch self listing bs)).
Proof.
  intro F.
  pose proof (fold_batches_rel self bs _ _ (init_rel self listing) F) as R.
  fold (fold_watch self listing bs) in R.
  pose proof (rel_self _ _ _ R) as G. split; [exact G|].
  unfold publish. apply aget_in in G.
  change (member_of self) with ((fun kn : Z * node => member_of (snd kn)) (nid self, self)).
  apply in_map. exact G.
Qed.

Lemma publish_ids mem : keyed mem -> sorted mem -> map mid (publish mem) = akeys mem.
Proof.
  intros K S. unfold publish, akeys. rewrite map_map. apply map_ext_in.
  intros [k nd] I. simpl. apply K. apply in_aget; assumption.
Qed.

Theorem published_ids_unique self listing bs :
  Forall conform_ev (concat bs) -> NoDup (map mid (publish (fold_watch self listing bs))).
Proof.
  intro F.
  pose proof (fold_batches_rel self bs _ _ (init_rel self listing) F) as R.
  fold (fold_watch self listing bs) in R.
  rewrite publish_ids; [| apply (rel_keyed _ _ _ R) | apply (rel_sorted _ _ _ R)].
  apply sorted_nodup_keys. apply (rel_sorted _ _ _ R).
Qed.

(* what the published set says about any other node: exactly the last event about it *)
Theorem implied_other self listing evs k :
  k <> nid self ->
  aget k (implied self listing evs) = aget k (fold_left sstep evs (listed listing)).
Proof. intro N. unfold implied. apply aget_aset_other. exact N. Qed.

Lemma sstep_snoc evs e m : fold_left sstep (evs ++ [e]) m = sstep (fold_left sstep evs m) e.
Proof. rewrite fold_left_app. reflexivity. Qed.

Theorem implied_last_event self listing evs e k :
  k <> nid self ->
  aget k (implied self listing (evs ++ [e])) =
  match e with
  | EPut k' n => if Z.eqb k k' then Some n else aget k (implied self listing evs)
  | EDel k' => if Z.eqb k k' then None else aget k (implied self listing evs)
  | EJunk _ _ => aget k (implied self listing evs)
  end.
Proof.
  intro N. rewrite !implied_other by exact N. rewrite sstep_snoc.
  destruct e as [k' n|k'|k' v]; simpl.
  - rewrite aget_aset. reflexivity.
  - rewrite aget_adel. reflexivity.
  - reflexivity.
Qed.

(* ================================================================== part B *)
Definition p_members (ms : list member) (a : alist member) : alist member :=
  fold_left (fun a m => aset (mid m) m a) ms a.
Definition p_types (ms : list member) (c : alist (list item)) : alist (list item) :=
  fold_left (fun c m => fold_left (add_service (mid m) (mstate m)) (msvcs m) c) ms c.
Definition p_working (ms : list member) (c : alist (list item)) : alist (list item) :=
  fold_left (fun c m => if is_work (mstate m)
                        then fold_left (add_service (mid m) (mstate m)) (msvcs m) c else c) ms c.

Lemma fold_add_member ms : forall a ty wk,
  fold_left add_member ms (a, ty, wk) = (p_members ms a, p_types ms ty, p_working ms wk).
Proof.
  induction ms as [|m r IH]; intros a ty wk; simpl; [reflexivity|]. rewrite IH. reflexivity.
Qed.

Lemma make_members_eq ms :
  make_members ms =
  let mm := p_members ms [] in
  let ty' := set_pids mm (p_types ms []) in
  Ix mm ty' (set_pids mm (p_working ms [])) (build_services ty').
Proof. unfold make_members. rewrite fold_add_member. reflexivity. Qed.

(* no type maps to an empty list *)
Definition ne {A} (c : alist (list A)) : Prop := forall t l, aget t c = Some l -> l <> [].

Lemma ne_nonempty {A} (c : alist (list A)) t : ne c -> aget t c = nonempty (lst c t).
Proof.
  intro N. unfold lst. destruct (aget t c) as [l|] eqn:G; [|reflexivity].
  specialize (N _ _ G). destruct l; [contradiction | reflexivity].
Qed.

Definition svc_item (t id st : Z) (s : svc) : list item :=
  match s with
  | Svc t' n => if Z.eqb t' t then [It n id st None] else []
  | SBad _ => []
  end.

Lemma lst_add_service id st c s t :
  lst (add_service id st c s) t = lst c t ++ svc_item t id st s.
Proof.
  destruct s as [t' n|v]; simpl; [|rewrite app_nil_r; reflexivity].
  unfold lst at 1. rewrite aget_aset. rewrite (Z.eqb_sym t' t).
  destruct (Z.eqb_spec t t') as [E|N].
  - subst. reflexivity.
  - rewrite app_nil_r. reflexivity.
Qed.

Lemma add_service_ne id st c s : ne c -> ne (add_service id st c s).
Proof.
  intro N. destruct s as [t' n|v]; simpl; [|exact N].
  intros t l. rewrite aget_aset. destruct (Z.eqb t t').
  - intro H. inv H. destruct (lst c t'); discriminate.
  - apply N.
Qed.

Lemma add_service_sorted id st c s : sorted c -> sorted (add_service id st c s).
Proof. intro S. destruct s; simpl; [apply sorted_aset|]; exact S. Qed.

Lemma lst_fold_services id st svcs : forall c t,
  lst (fold_left (add_service id st) svcs c) t = lst c t ++ flat_map (svc_item t id st) svcs.
Proof.
  induction svcs as [|s r IH]; intros c t; simpl; [rewrite app_nil_r; reflexivity|].
  rewrite IH, lst_add_service, app_assoc. reflexivity.
Qed.

Lemma fold_services_ne id st svcs : forall c, ne c -> ne (fold_left (add_service id st) svcs c).
Proof.
  induction svcs as [|s r IH]; intros c N; simpl; [exact N|]. apply IH. apply add_service_ne. exact N.
Qed.

Lemma fold_services_sorted id st svcs : forall c,
  sorted c -> sorted (fold_left (add_service id st) svcs c).
Proof.
  induction svcs as [|s r IH]; intros c N; simpl; [exact N|].
  apply IH. apply add_service_sorted. exact N.
Qed.

Lemma raw_items_eq t m : raw_items t m = flat_map (svc_item t (mid m) (mstate m)) (msvcs m).
Proof. reflexivity. Qed.

Lemma lst_p_types ms : forall c t, lst (p_types ms c) t = lst c t ++ flat_map (raw_items t) ms.
Proof.
  induction ms as [|m r IH]; intros c t; simpl; [rewrite app_nil_r; reflexivity|].
  unfold p_types in *. simpl. rewrite IH, lst_fold_services, raw_items_eq, app_assoc. reflexivity.
Qed.

Lemma p_types_ne ms : forall c, ne c -> ne (p_types ms c).
Proof.
  induction ms as [|m r IH]; intros c N; simpl; [exact N|].
  apply IH. apply fold_services_ne. exact N.
Qed.

Lemma p_types_sorted ms : forall c, sorted c -> sorted (p_types ms c).
Proof.
  induction ms as [|m r IH]; intros c N; simpl; [exact N|].
  apply IH. apply fold_services_sorted. exact N.
Qed.

Definition works (m : member) : bool := is_work (mstate m).

Lemma lst_p_working ms : forall c t,
  lst (p_working ms c) t = lst c t ++ flat_map (raw_items t) (filter works ms).
Proof.
  induction ms as [|m r IH]; intros c t; simpl; [rewrite app_nil_r; reflexivity|].
  unfold p_working in *. simpl. rewrite IH. unfold works at 2.
  destruct (is_work (mstate m)); simpl.
  - rewrite lst_fold_services, raw_items_eq, app_assoc. reflexivity.
  - reflexivity.
Qed.

Lemma p_working_ne ms : forall c, ne c -> ne (p_working ms c).
Proof.
  induction ms as [|m r IH]; intros c N; simpl; [exact N|].
  apply IH. destruct (is_work (mstate m)); [apply fold_services_ne|]; exact N.
Qed.

Lemma p_working_sorted ms : forall c, sorted c -> sorted (p_working ms c).
Proof.
  induction ms as [|m r IH]; intros c N; simpl; [exact N|].
  apply IH. destruct (is_work (mstate m)); [apply fold_services_sorted|]; exact N.
Qed.

Lemma ne_nil {A} : ne (@nil (Z * list A)).
Proof. intros t l H. discriminate. Qed.

(* the members map: last record wins *)
Lemma p_members_get ms id : forall a,
  aget id (p_members ms a) =
  fold_left (fun acc m => if Z.eqb (mid m) id then Some m else acc) ms (aget id a).
Proof.
  induction ms as [|m r IH]; intro a; simpl; [reflexivity|].
  unfold p_members in *. simpl. rewrite IH, aget_aset, (Z.eqb_sym id (mid m)). reflexivity.
Qed.

Theorem members_index ms id : aget id (ix_members (make_members ms)) = last_with ms id.
Proof. rewrite make_members_eq. simpl. rewrite p_members_get. reflexivity. Qed.

Lemma with_pid_resolved ms it : with_pid (p_members ms []) it = resolved ms it.
Proof.
  unfold with_pid, resolved, resolve. rewrite p_members_get. reflexivity.
Qed.

Lemma set_pids_get mm c t : aget t (set_pids mm c) = option_map (map (with_pid mm)) (aget t c).
Proof.
  induction c as [|[t' l] r IH]; simpl; [reflexivity|].
  destruct (Z.eqb t t'); [reflexivity | exact IH].
Qed.

Lemma set_pids_lb mm c k : lb k c -> lb k (set_pids mm c).
Proof. induction c as [|[t' l] r IH]; simpl; [tauto|]. intros [H1 H2]. split; auto. Qed.

Lemma set_pids_sorted mm c : sorted c -> sorted (set_pids mm c).
Proof.
  induction c as [|[t' l] r IH]; simpl; [tauto|]. intros [H1 H2].
  split; [apply set_pids_lb; exact H1 | auto].
Qed.

Lemma nonempty_map {A B} (f : A -> B) l : option_map (map f) (nonempty l) = nonempty (map f l).
Proof. destruct l; reflexivity. Qed.

Theorem type_lists ms t : get_list (make_members ms) t = nonempty (spec_list ms t).
Proof.
  rewrite make_members_eq. unfold get_list. simpl.
  rewrite set_pids_get, (ne_nonempty _ t (p_types_ne ms [] ne_nil)), lst_p_types. simpl.
  rewrite nonempty_map. unfold spec_list.
  f_equal. apply map_ext. apply with_pid_resolved.
Qed.

Theorem working_lists ms t : get_work (make_members ms) t = nonempty (spec_work ms t).
Proof.
  rewrite make_members_eq. unfold get_work. simpl.
  rewrite set_pids_get, (ne_nonempty _ t (p_working_ne ms [] ne_nil)), lst_p_working. simpl.
  rewrite nonempty_map. unfold spec_work.
  f_equal. apply map_ext. apply with_pid_resolved.
Qed.

(* the working list is the sublist (same order) of the per-type list on working nodes *)
Lemma raw_items_state t m it : In it (raw_items t m) -> istate it = mstate m /\ inode it = mid m.
Proof.
  unfold raw_items. intro I. apply in_flat_map in I. destruct I as [s [_ I]].
  destruct s as [t' n|v]; [|contradiction].
  destruct (Z.eqb t' t); [|contradiction]. destruct I as [E|[]]. subst. auto.
Qed.

Lemma filter_all {A} (f : A -> bool) l : (forall x, In x l -> f x = true) -> filter f l = l.
Proof.
  induction l as [|x r IH]; intro H; simpl; [reflexivity|].
  rewrite (H x) by (left; reflexivity). f_equal. apply IH. intros y I. apply H. right. exact I.
Qed.

Lemma filter_none {A} (f : A -> bool) l : (forall x, In x l -> f x = false) -> filter f l = [].
Proof.
  induction l as [|x r IH]; intro H; simpl; [reflexivity|].
  rewrite (H x) by (left; reflexivity). apply IH. intros y I. apply H. right. exact I.
Qed.

Lemma filter_app {A} (f : A -> bool) l1 l2 : filter f (l1 ++ l2) = filter f l1 ++ filter f l2.
Proof.
  induction l1 as [|x r IH]; simpl; [reflexivity|]. destruct (f x); simpl; rewrite IH; reflexivity.
Qed.

Lemma filter_map_comm {A B} (f : B -> bool) (g : A -> B) l :
  filter f (map g l) = map g (filter (fun x => f (g x)) l).
Proof.
  induction l as [|x r IH]; simpl; [reflexivity|]. destruct (f (g x)); simpl; rewrite IH; reflexivity.
Qed.

Theorem working_is_filter ms t :
  spec_work ms t = filter (fun it => is_work (istate it)) (spec_list ms t).
Proof.
  unfold spec_work, spec_list. rewrite filter_map_comm. f_equal. simpl.
  induction ms as [|m r IH]; simpl; [reflexivity|].
  rewrite filter_app, <- IH. destruct (is_work (mstate m)) eqn:W; simpl.
  - f_equal. symmetry. apply filter_all. intros it I.
    apply raw_items_state in I. destruct I as [E _]. rewrite E. exact W.
  - rewrite (filter_none (fun x => is_work (istate x)) (raw_items t m)); [reflexivity|].
    intros it I. apply raw_items_state in I. destruct I as [E _]. rewrite E. exact W.
Qed.

(* every item of the list for type t is a service "t.name" listed by a member, once per
   listing; conversely every listed well-formed service is there *)
Lemma in_raw_items t m it :
  In it (raw_items t m) <->
  In (Svc t (iname it)) (msvcs m) /\ it = It (iname it) (mid m) (mstate m) None.
Proof.
  unfold raw_items. rewrite in_flat_map. split.
  - intros [s [I H]]. destruct s as [t' n|v]; [|contradiction].
    destruct (Z.eqb_spec t' t) as [E|N]; [|contradiction]. destruct H as [E2|[]]. subst. auto.
  - intros [I E]. exists (Svc t (iname it)). split; [exact I|].
    rewrite Z.eqb_refl. left. symmetry. exact E.
Qed.

Theorem type_list_items ms t it :
  In it (spec_list ms t) <->
  exists m, In m ms /\ In (Svc t (iname it)) (msvcs m) /\
            it = It (iname it) (mid m) (mstate m) (resolve ms (mid m)).
Proof.
  unfold spec_list. rewrite in_map_iff. split.
  - intros [r [E I]]. apply in_flat_map in I. destruct I as [m [Im Ir]].
    apply in_raw_items in Ir. destruct Ir as [Is Er].
    exists m. subst it. unfold resolved. rewrite Er. simpl. auto.
  - intros [m [Im [Is E]]]. exists (It (iname it) (mid m) (mstate m) None). split.
    + unfold resolved. simpl. symmetry. exact E.
    + apply in_flat_map. exists m. split; [exact Im|]. apply in_raw_items. simpl. auto.
Qed.

(* multiplicity: one item per listing of a service of that type *)
Lemma length_raw_items t m : length (raw_items t m) = zcount t (svc_types m).
Proof.
  unfold raw_items, svc_types. induction (msvcs m) as [|s r IH]; simpl; [reflexivity|].
  rewrite app_length, zcount_app, IH. f_equal.
  destruct s as [t' n|v]; simpl; [|reflexivity].
  rewrite (Z.eqb_sym t t'). destruct (Z.eqb t' t); reflexivity.
Qed.

Theorem type_list_length ms t : length (spec_list ms t) = zcount t (types_of ms).
Proof.
  unfold spec_list, types_of. rewrite map_length.
  induction ms as [|m r IH]; simpl; [reflexivity|].
  rewrite app_length, zcount_app, IH, length_raw_items. reflexivity.
Qed.

(* address resolution with unique node ids *)
Lemma last_with_from ms id : forall acc,
  fold_left (fun acc m => if Z.eqb (mid m) id then Some m else acc) ms acc =
  match last_with ms id with Some m => Some m | None => acc end.
Proof.
  unfold last_with. induction ms as [|m r IH]; intro acc; simpl; [reflexivity|].
  rewrite (IH (if Z.eqb (mid m) id then Some m else acc)), (IH (if Z.eqb (mid m) id then Some m else None)).
  destruct (fold_left _ r None); [reflexivity|]. destruct (Z.eqb (mid m) id); reflexivity.
Qed.

Lemma last_with_none ms id : ~ In id (map mid ms) -> last_with ms id = None.
Proof.
  induction ms as [|m r IH]; intro N; [reflexivity|].
  unfold last_with. simpl. rewrite last_with_from. simpl in N.
  rewrite IH by tauto. destruct (Z.eqb_spec (mid m) id); [tauto | reflexivity].
Qed.

Theorem last_with_unique ms m : NoDup (map mid ms) -> In m ms -> last_with ms (mid m) = Some m.
Proof.
  induction ms as [|m0 r IH]; intros D I; [contradiction|].
  simpl in D. inv D. unfold last_with. simpl. rewrite last_with_from.
  destruct I as [E|I].
  - subst m0. rewrite last_with_none by assumption. rewrite Z.eqb_refl. reflexivity.
  - rewrite IH by assumption. reflexivity.
Qed.

Theorem resolves_to_node ms t it :
  NoDup (map mid ms) -> In it (spec_list ms t) ->
  exists m, In m ms /\ inode it = mid m /\ istate it = mstate m /\
            In (Svc t (iname it)) (msvcs m) /\ ipid it = Some (maddr m).
Proof.
  intros D I. apply type_list_items in I. destruct I as [m [Im [Is E]]].
  exists m. rewrite E. simpl. unfold resolve. rewrite last_with_unique by assumption. auto.
Qed.

(* the name map *)
Lemma add_name_get a it n :
  aget n (add_name a it) =
  match aget n a with Some x => Some x | None => if named n it then Some it else None end.
Proof.
  unfold add_name, named. destruct (aget (iname it) a) as [y|] eqn:G.
  - destruct (aget n a) eqn:G2; [reflexivity|].
    destruct (Z.eqb_spec (iname it) n); [congruence | reflexivity].
  - rewrite aget_aset, (Z.eqb_sym n (iname it)).
    destruct (Z.eqb_spec (iname it) n) as [E|N].
    + subst. rewrite G. reflexivity.
    + destruct (aget n a); reflexivity.
Qed.

Lemma fold_add_name_get l n : forall a,
  aget n (fold_left add_name l a) =
  match aget n a with Some x => Some x | None => find (named n) l end.
Proof.
  induction l as [|it r IH]; intro a; simpl; [destruct (aget n a); reflexivity|].
  rewrite IH, add_name_get. destruct (aget n a); [reflexivity|].
  destruct (named n it); reflexivity.
Qed.

Lemma build_services_get ty n : forall a,
  aget n (fold_left (fun a tl => fold_left add_name (snd tl) a) ty a) =
  match aget n a with Some x => Some x | None => find (named n) (flat_map (@snd Z (list item)) ty) end.
Proof.
  induction ty as [|[t l] r IH]; intro a; simpl; [destruct (aget n a); reflexivity|].
  rewrite IH, fold_add_name_get, find_app. destruct (aget n a); [reflexivity|].
  destruct (find (named n) l); reflexivity.
Qed.

Lemma service_index ms n :
  get_service (make_members ms) n =
  find (named n) (flat_map (@snd Z (list item)) (ix_types (make_members ms))).
Proof.
  rewrite make_members_eq. unfold get_service. simpl.
  unfold build_services. rewrite build_services_get. reflexivity.
Qed.

Lemma types_sorted ms : sorted (ix_types (make_members ms)).
Proof.
  rewrite make_members_eq. simpl. apply set_pids_sorted. apply p_types_sorted. exact I.
Qed.

Lemma working_sorted ms : sorted (ix_working (make_members ms)).
Proof.
  rewrite make_members_eq. simpl. apply set_pids_sorted. apply p_working_sorted. exact I.
Qed.

Lemma nonempty_some {A} (l x : list A) : nonempty l = Some x -> x = l /\ l <> [].
Proof. destruct l; simpl; intro H; inv H. split; [reflexivity | discriminate]. Qed.

Lemma types_entry ms t l :
  In (t, l) (ix_types (make_members ms)) <-> (l = spec_list ms t /\ l <> []).
Proof.
  split.
  - intro I. apply in_aget in I; [|apply types_sorted].
    fold (get_list (make_members ms) t) in I. rewrite type_lists in I.
    apply nonempty_some in I. destruct I as [E N]. subst. auto.
  - intros [E N]. apply aget_in. fold (get_list (make_members ms) t).
    rewrite type_lists. subst l. destruct (spec_list ms t); [contradiction | reflexivity].
Qed.

Lemma working_entry ms t l :
  In (t, l) (ix_working (make_members ms)) <-> (l = spec_work ms t /\ l <> []).
Proof.
  split.
  - intro I. apply in_aget in I; [|apply working_sorted].
    fold (get_work (make_members ms) t) in I. rewrite working_lists in I.
    apply nonempty_some in I. destruct I as [E N]. subst. auto.
  - intros [E N]. apply aget_in. fold (get_work (make_members ms) t).
    rewrite working_lists. subst l. destruct (spec_work ms t); [contradiction | reflexivity].
Qed.

Theorem service_admissible ms n : admissible_service ms n (get_service (make_members ms) n).
Proof.
  rewrite service_index. destruct (find _ _) as [it|] eqn:F; simpl.
  - apply find_flat_map_some in F. destruct F as [[t l] [I F]]. simpl in F.
    apply types_entry in I. destruct I as [E _]. subst l. exists t. exact F.
  - intros t it I En. rewrite find_none_iff in F.
    assert (J : In it (flat_map (@snd Z (list item)) (ix_types (make_members ms)))).
    { apply in_flat_map. exists (t, spec_list ms t). split; [|exact I].
      apply types_entry. split; [reflexivity|]. destruct (spec_list ms t); [contradiction | discriminate]. }
    specialize (F _ J). unfold named in F. rewrite En, Z.eqb_refl in F. discriminate.
Qed.

Theorem service_unique ms n t it :
  unique_name ms n -> In it (spec_list ms t) -> iname it = n ->
  get_service (make_members ms) n = Some it.
Proof.
  intros U I En. pose proof (service_admissible ms n) as A.
  destruct (get_service (make_members ms) n) as [it'|]; simpl in A.
  - destruct A as [t' F]. pose proof (find_some _ _ F) as [I' N'].
    unfold named in N'. apply Z.eqb_eq in N'.
    destruct (U t' t it' it I' I N' En) as [E _]. subst. reflexivity.
  - exfalso. apply (A t it I En).
Qed.

Theorem work_names ms n :
  In n (get_work_names (make_members ms)) <-> exists t it, In it (spec_work ms t) /\ iname it = n.
Proof.
  unfold get_work_names. rewrite in_flat_map. split.
  - intros [[t l] [I J]]. simpl in J. apply in_map_iff in J. destruct J as [it [E J]].
    apply working_entry in I. destruct I as [El _]. subst l. exists t, it. auto.
  - intros [t [it [I E]]]. exists (t, spec_work ms t). split.
    + apply working_entry. split; [reflexivity|]. destruct (spec_work ms t); [contradiction | discriminate].
    + simpl. apply in_map_iff. exists it. auto.
Qed.

Theorem make_members_nil : make_members [] = empty_index.
Proof. reflexivity. Qed.

(* ================================================================== part C *)
Definition agree_on (f : field) (a b : index) : Prop :=
  match f with
  | FMembers => ix_members a = ix_members b
  | FTypes => ix_types a = ix_types b
  | FWorking => ix_working a = ix_working b
  | FServices => ix_services a = ix_services b
  end.

Definition field_eqb (f g : field) : bool :=
  match f, g with
  | FMembers, FMembers | FTypes, FTypes | FWorking, FWorking | FServices, FServices => true
  | _, _ => false
  end.

Lemma field_eqb_spec f g : field_eqb f g = true <-> f = g.
Proof. destruct f, g; simpl; split; intro H; try reflexivity; discriminate. Qed.

Lemma agree_on_refl f a : agree_on f a a.
Proof. destruct f; reflexivity. Qed.

Lemma agree_on_trans f a b c : agree_on f a b -> agree_on f b c -> agree_on f a c.
Proof. destruct f; simpl; congruence. Qed.

Lemma copy_field_same f from into : agree_on f (copy_field f from into) from.
Proof. destruct f; reflexivity. Qed.

Lemma copy_field_other f g from into : f <> g -> agree_on g (copy_field f from into) into.
Proof. destruct f, g; simpl; intro N; try reflexivity; contradiction. Qed.

(* a single-load query is a function of the one reference it loads *)
Lemma answer_dep q f a b : reads q = [f] -> agree_on f a b -> answer_of q a = answer_of q b.
Proof.
  destruct q; simpl; intro R; inv R; simpl; intro E;
    unfold get_list, get_work, get_work_names, get_service, get_members; rewrite E; reflexivity.
Qed.

Definition in_fields (f : field) (fs : list field) : bool := existsb (field_eqb f) fs.

Lemma in_fields_In f fs : in_fields f fs = true <-> In f fs.
Proof.
  unfold in_fields. rewrite existsb_exists. split.
  - intros [g [I E]]. apply field_eqb_spec in E. subst. exact I.
  - intro I. exists f. split; [exact I | apply field_eqb_spec; reflexivity].
Qed.

(* index of the view a reference currently holds *)
Definition holds (u : ustate) (f : field) : nat :=
  match u_cur u with
  | None => u_done u
  | Some (_, fs) => if in_fields f fs then u_done u else S (u_done u)
  end.

Record uinv (pubs : list (list member)) (sh : index) (u : ustate) : Prop := {
  ui_todo : u_todo u = skipn (started u) pubs;
  ui_len : (started u <= length pubs)%nat;
  ui_cur : forall ix fs, u_cur u = Some (ix, fs) -> ix = view pubs (S (u_done u)) /\ NoDup fs;
  ui_shared : forall f, agree_on f sh (view pubs (holds u f))
}.

Lemma skipn_cons_nth {A} (l : list A) : forall d x r (def : A),
  skipn d l = x :: r -> nth d l def = x /\ skipn (S d) l = r /\ (S d <= length l)%nat.
Proof.
  induction l as [|y t IH]; intros d x r def H.
  - destruct d; discriminate.
  - destruct d as [|d]; simpl in *.
    + inv H. repeat split. lia.
    + destruct (IH d x r def H) as [H1 [H2 H3]]. repeat split; [exact H1 | exact H2 | lia].
Qed.

Lemma store_order_nodup : NoDup store_order.
Proof.
  unfold store_order. repeat constructor; simpl; intuition discriminate.
Qed.

Lemma in_fields_store_order f : in_fields f store_order = true.
Proof. destruct f; reflexivity. Qed.

Lemma ustep_inv pubs s :
  uinv pubs (shared s) (upd s) -> uinv pubs (shared (ustep s)) (upd (ustep s)).
Proof.
  intros [Ht Hl Hc Hs]. unfold ustep.
  destruct (upd s) as [todo cur dn] eqn:EU. simpl in Ht, Hl, Hc, Hs |- *.
  unfold started, holds in Ht, Hl, Hs. simpl in Ht, Hl, Hs.
  destruct cur as [[ix fs]|].
  - destruct (Hc ix fs eq_refl) as [Eix Nd].
    destruct fs as [|f fs]; simpl.
    + (* publication complete *)
      constructor; simpl; unfold started, holds; simpl.
      * exact Ht.
      * exact Hl.
      * intros ix' fs' H. discriminate.
      * intro f. specialize (Hs f). simpl in Hs. exact Hs.
    + (* one store *)
      apply NoDup_cons_iff in Nd. destruct Nd as [Nf Nd].
      constructor; simpl; unfold started, holds; simpl.
      * exact Ht.
      * exact Hl.
      * intros ix' fs' H. inv H. split; [reflexivity | assumption].
      * intro g. specialize (Hs g). simpl in Hs.
        destruct (field_eqb g f) eqn:Egf; simpl in Hs.
        -- apply field_eqb_spec in Egf. subst g.
           assert (NI : in_fields f fs = false).
           { destruct (in_fields f fs) eqn:X; [|reflexivity].
             apply in_fields_In in X. contradiction. }
           rewrite NI, Eix. apply copy_field_same.
        -- eapply agree_on_trans; [|exact Hs].
           apply copy_field_other. intro E. subst g.
           assert (X : field_eqb f f = true) by (apply field_eqb_spec; reflexivity). congruence.
  - destruct todo as [|ms r]; simpl.
    + rewrite EU. constructor; simpl; unfold started, holds; simpl; assumption.
    + symmetry in Ht. destruct (skipn_cons_nth pubs dn ms r [] Ht) as [H1 [H2 H3]].
      constructor; simpl; unfold started, holds; simpl.
      * symmetry. exact H2.
      * exact H3.
      * intros ix' fs' H. inv H. split; [reflexivity | apply store_order_nodup].
      * intro f. specialize (Hs f). destruct f; exact Hs.
Qed.

Lemma holds_bounds u f : (u_done u <= holds u f <= started u)%nat.
Proof.
  unfold holds, started. destruct (u_cur u) as [[ix fs]|]; [|lia].
  destruct (in_fields f fs); lia.
Qed.

(* every answer logged for a single-load query comes from one view *)
Definition entry_ok (pubs : list (list member)) (e : entry) : Prop :=
  length (reads (e_query e)) = 1%nat ->
  exists k, (e_lo e <= k <= e_hi e)%nat /\ (e_hi e <= length pubs)%nat /\
            e_answer e = answer_of (e_query e) (view pubs k).

Record rinv (pubs : list (list member)) (r : rstate) : Prop := {
  ri_log : Forall (entry_ok pubs) (r_log r);
  ri_cur : forall q snap fs, r_cur r = Some (q, snap, fs) ->
                             length (reads q) = 1%nat -> fs = reads q
}.

Lemma rstep_inv pubs sh u r :
  uinv pubs sh u -> rinv pubs r -> rinv pubs (rstep sh (u_done u) (started u) r).
Proof.
  intros UI [Rl Rc]. unfold rstep.
  destruct (r_cur r) as [[[q snap] fs]|] eqn:EC.
  - specialize (Rc q snap fs eq_refl).
    destruct fs as [|f fs].
    + constructor; simpl; [|intros; discriminate].
      apply Forall_app. split; [exact Rl|]. constructor; [|constructor].
      intro L. simpl in L. specialize (Rc L). rewrite <- Rc in L. discriminate.
    + destruct fs as [|g fs].
      * constructor; simpl; [|intros; discriminate].
        apply Forall_app. split; [exact Rl|]. constructor; [|constructor].
        intro L. simpl in L. specialize (Rc L). simpl.
        exists (holds u f). split; [apply holds_bounds|]. split; [apply (ui_len _ _ _ UI)|].
        apply answer_dep with f; [symmetry; exact Rc|].
        eapply agree_on_trans; [apply copy_field_same | apply (ui_shared _ _ _ UI)].
      * constructor; simpl; [exact Rl|].
        intros q' snap' fs' H L. inv H. specialize (Rc L). rewrite <- Rc in L. discriminate.
  - destruct (r_todo r) as [|q qs]; simpl.
    + constructor; [exact Rl|]. rewrite EC. intros; discriminate.
    + constructor; simpl; [exact Rl|]. intros q' snap' fs' H L. inv H. reflexivity.
Qed.

Lemma update_nth_Forall {A} (P : A -> Prop) f : forall l i,
  Forall P l -> (forall x, P x -> P (f x)) -> Forall P (update_nth i f l).
Proof.
  induction l as [|x r IH]; intros i F H; simpl; [destruct i; constructor|].
  inv F. destruct i; constructor; auto.
Qed.

Record sinv (pubs : list (list member)) (s : sys) : Prop := {
  si_u : uinv pubs (shared s) (upd s);
  si_r : Forall (rinv pubs) (rds s)
}.

Lemma ustep_rds s : rds (ustep s) = rds s.
Proof.
  unfold ustep. destruct (u_cur (upd s)) as [[ix [|f fs]]|]; try reflexivity.
  destruct (u_todo (upd s)); reflexivity.
Qed.

Lemma step_inv pubs s tid : sinv pubs s -> sinv pubs (step s tid).
Proof.
  intros [Iu Ir]. destruct tid as [|i]; simpl.
  - constructor; [apply ustep_inv; exact Iu | rewrite ustep_rds; exact Ir].
  - constructor; simpl; [exact Iu|].
    apply update_nth_Forall; [exact Ir|]. intros r Hr. apply rstep_inv; assumption.
Qed.

Lemma init_inv pubs progs : sinv pubs (init_sys pubs progs).
Proof.
  constructor; simpl.
  - constructor; simpl; unfold started, holds; simpl.
    + reflexivity.
    + lia.
    + intros; discriminate.
    + intro f. apply agree_on_refl.
  - apply Forall_forall. intros r I. apply in_map_iff in I. destruct I as [p [E _]]. subst r.
    constructor; simpl; [constructor | intros; discriminate].
Qed.

Lemma run_inv pubs sched : forall s, sinv pubs s -> sinv pubs (run_sched s sched).
Proof.
  induction sched as [|t r IH]; intros s I; simpl; [exact I|]. apply IH. apply step_inv. exact I.
Qed.

Theorem reader_atomic pubs progs sched i r e :
  nth_error (rds (run_sched (init_sys pubs progs) sched)) i = Some r ->
  In e (r_log r) ->
  length (reads (e_query e)) = 1%nat ->
  exists k, (e_lo e <= k <= e_hi e)%nat /\ (e_hi e <= length pubs)%nat /\
            e_answer e = answer_of (e_query e) (view pubs k).
Proof.
  intros N I L.
  pose proof (run_inv pubs sched _ (init_inv pubs progs)) as [_ Ir].
  apply nth_error_In in N. rewrite Forall_forall in Ir. specialize (Ir r N).
  destruct Ir as [Rl _]. rewrite Forall_forall in Rl. exact (Rl e I L).
Qed.

(* the members map lists exactly the answering record of every node id *)
Definition mkeyed (a : alist member) : Prop := forall id m, aget id a = Some m -> mid m = id.

Lemma p_members_keyed ms : forall a, mkeyed a -> mkeyed (p_members ms a).
Proof.
  induction ms as [|x xs IH]; intros a K; simpl; [exact K|].
  apply IH. intros id m. rewrite aget_aset.
  destruct (Z.eqb_spec id (mid x)) as [E|N]; [intro H; inv H; reflexivity | apply K].
Qed.

Lemma p_members_sorted ms : forall a, sorted a -> sorted (p_members ms a).
Proof.
  induction ms as [|x xs IH]; intros a S; simpl; [exact S|]. apply IH. apply sorted_aset. exact S.
Qed.

Theorem members_listed ms m :
  In m (get_members (make_members ms)) <-> last_with ms (mid m) = Some m.
Proof.
  rewrite <- members_index. unfold get_members. rewrite make_members_eq. simpl.
  assert (K : mkeyed (p_members ms [])) by (apply p_members_keyed; intros id x H; discriminate).
  assert (S : sorted (p_members ms [])) by (apply p_members_sorted; exact I).
  split.
  - intro J. apply in_map_iff in J. destruct J as [[id m'] [E J]]. simpl in E. subst m'.
    pose proof (in_aget _ _ _ S J) as G. rewrite (K _ _ G). exact G.
  - intro G. apply aget_in in G. apply in_map_iff. exists (mid m, m). auto.
Qed.

(* per query kind, in terms of the member list the answer was built from *)
Definition view_list (pubs : list (list member)) (k : nat) : list member :=
  match k with O => [] | S j => nth j pubs [] end.

Lemma view_eq pubs k : view pubs k = make_members (view_list pubs k).
Proof. destruct k; reflexivity. Qed.

Section PerKind.
  Variables (pubs : list (list member)) (progs : list (list query)) (sched : list nat)
            (i : nat) (r : rstate) (e : entry).
  Hypothesis Hr : nth_error (rds (run_sched (init_sys pubs progs) sched)) i = Some r.
  Hypothesis He : In e (r_log r).

  Lemma atomic_list t : e_query e = QList t ->
    exists k, (e_lo e <= k <= e_hi e)%nat /\ (e_hi e <= length pubs)%nat /\
              e_answer e = AItems (nonempty (spec_list (view_list pubs k) t)).
  Proof.
    intro Q. destruct (reader_atomic _ _ _ _ _ _ Hr He) as [k [B [L A]]]; [rewrite Q; reflexivity|].
    exists k. split; [exact B|]. split; [exact L|].
    rewrite A, Q, view_eq. simpl. rewrite type_lists. reflexivity.
  Qed.

  Lemma atomic_work t : e_query e = QWork t ->
    exists k, (e_lo e <= k <= e_hi e)%nat /\ (e_hi e <= length pubs)%nat /\
              e_answer e = AItems (nonempty (spec_work (view_list pubs k) t)).
  Proof.
    intro Q. destruct (reader_atomic _ _ _ _ _ _ Hr He) as [k [B [L A]]]; [rewrite Q; reflexivity|].
    exists k. split; [exact B|]. split; [exact L|].
    rewrite A, Q, view_eq. simpl. rewrite working_lists. reflexivity.
  Qed.

  Lemma atomic_service n : e_query e = QService n ->
    exists k a, (e_lo e <= k <= e_hi e)%nat /\ (e_hi e <= length pubs)%nat /\
                e_answer e = AItem a /\ admissible_service (view_list pubs k) n a.
  Proof.
    intro Q. destruct (reader_atomic _ _ _ _ _ _ Hr He) as [k [B [L A]]]; [rewrite Q; reflexivity|].
    exists k, (get_service (make_members (view_list pubs k)) n).
    split; [exact B|]. split; [exact L|]. split.
    - rewrite A, Q, view_eq. reflexivity.
    - apply service_admissible.
  Qed.

  Lemma atomic_work_names : e_query e = QWorkNames ->
    exists k l, (e_lo e <= k <= e_hi e)%nat /\ (e_hi e <= length pubs)%nat /\
                e_answer e = ANames l /\
                forall n, In n l <-> exists t it, In it (spec_work (view_list pubs k) t) /\ iname it = n.
  Proof.
    intro Q. destruct (reader_atomic _ _ _ _ _ _ Hr He) as [k [B [L A]]]; [rewrite Q; reflexivity|].
    exists k, (get_work_names (make_members (view_list pubs k))).
    split; [exact B|]. split; [exact L|]. split.
    - rewrite A, Q, view_eq. reflexivity.
    - apply work_names.
  Qed.

  Lemma atomic_members : e_query e = QMembers ->
    exists k l, (e_lo e <= k <= e_hi e)%nat /\ (e_hi e <= length pubs)%nat /\
                e_answer e = AMembers l /\
                forall m, In m l <-> last_with (view_list pubs k) (mid m) = Some m.
  Proof.
    intro Q. destruct (reader_atomic _ _ _ _ _ _ Hr He) as [k [B [L A]]]; [rewrite Q; reflexivity|].
    exists k, (get_members (make_members (view_list pubs k))).
    split; [exact B|]. split; [exact L|]. split.
    - rewrite A, Q, view_eq. reflexivity.
    - apply members_listed.
  Qed.
End PerKind.

(* ================================================================== monitor soundness *)
(* The executable monitor (Spec.v) accepts the model's own run on every history: whatever the
   monitor rejects on an implementation trace is a deviation from the proven model. *)
Lemma svc_eqb_spec a b : svc_eqb a b = true <-> a = b.
Proof.
  destruct a as [t n|v], b as [t' n'|v']; simpl; rewrite ?andb_true_iff, ?Z.eqb_eq;
    split; intro H; try discriminate.
  - destruct H; subst; reflexivity.
  - inv H. auto.
  - subst. reflexivity.
  - inv H. reflexivity.
Qed.

Lemma member_eqb_spec a b : member_eqb a b = true <-> a = b.
Proof.
  destruct a as [i s ad sv], b as [i' s' ad' sv']. unfold member_eqb. simpl.
  rewrite !andb_true_iff, !Z.eqb_eq, (list_eqb_spec svc_eqb svc_eqb_spec).
  split; [intros [[[-> ->] ->] ->]; reflexivity | intro H; inv H; auto].
Qed.

Lemma item_eqb_spec a b : item_eqb a b = true <-> a = b.
Proof.
  destruct a as [n i s p], b as [n' i' s' p']. unfold item_eqb. simpl.
  rewrite !andb_true_iff, !Z.eqb_eq, (option_eqb_spec Z.eqb Z.eqb_eq).
  split; [intros [[[-> ->] ->] ->]; reflexivity | intro H; inv H; auto].
Qed.

Lemma items_opt_eqb_spec a b : items_opt_eqb a b = true <-> a = b.
Proof. apply option_eqb_spec. apply list_eqb_spec. apply item_eqb_spec. Qed.

Lemma typed_pair_spec (p q : Z * option (list item)) :
  pair_eqb Z.eqb items_opt_eqb p q = true <-> p = q.
Proof. apply pair_eqb_spec; [apply Z.eqb_eq | apply items_opt_eqb_spec]. Qed.

Lemma perm_eqb_counts {A} (eqb : A -> A -> bool) a b :
  (forall x, count_b eqb x a = count_b eqb x b) -> perm_eqb eqb a b = true.
Proof.
  intro H. unfold perm_eqb. apply andb_true_iff.
  split; apply forallb_forall; intros x _; apply Nat.eqb_eq; apply H.
Qed.

Lemma perm_eqb_refl {A} (eqb : A -> A -> bool) l : perm_eqb eqb l l = true.
Proof. apply perm_eqb_counts. reflexivity. Qed.

Lemma count_b_zcount x l : count_b Z.eqb x l = zcount x l.
Proof. induction l as [|y r IH]; simpl; [reflexivity | rewrite IH; reflexivity]. Qed.

Lemma conform_evb_spec e : conform_evb e = true <-> conform_ev e.
Proof.
  destruct e as [k n|k|k v]; simpl; [|tauto|tauto].
  rewrite andb_true_iff, Z.eqb_eq. tauto.
Qed.

Lemma conform_all_spec evs : forallb conform_evb evs = true -> Forall conform_ev evs.
Proof.
  intro H. apply Forall_forall. intros e I. apply conform_evb_spec.
  rewrite forallb_forall in H. apply H. exact I.
Qed.

Lemma admissible_b_complete ms n a : admissible_service ms n a -> admissible_b ms n a = true.
Proof.
  destruct a as [it|]; simpl; intro H.
  - destruct H as [t F]. apply existsb_exists. exists t. split.
    + apply zcount_In. rewrite <- type_list_length.
      apply find_some in F. destruct F as [I _]. destruct (spec_list ms t); [contradiction | simpl; lia].
    + rewrite F. simpl. apply item_eqb_spec. reflexivity.
  - apply forallb_forall. intros t _. apply negb_true_iff.
    destruct (existsb (named n) (spec_list ms t)) eqn:E; [|reflexivity].
    apply existsb_exists in E. destruct E as [it [I N]].
    unfold named in N. apply Z.eqb_eq in N. exfalso. exact (H t it I N).
Qed.

(* names of the working map, counted *)
Definition names_of (c : alist (list item)) : list Z := flat_map (fun tl => map iname (snd tl)) c.

Lemma names_aset_snoc c : forall t x n, sorted c ->
  zcount n (names_of (aset t (lst c t ++ [x]) c)) =
  (zcount n (names_of c) + (if Z.eqb n (iname x) then 1 else 0))%nat.
Proof.
  induction c as [|[k l] r IH]; intros t x n S.
  - unfold lst. simpl. lia.
  - simpl in S. destruct S as [L S]. unfold lst. simpl aget. simpl aset.
    destruct (Z.ltb_spec t k) as [Lt|Ge].
    + destruct (Z.eqb_spec t k) as [E|_]; [lia|].
      rewrite (lb_lt_none t k r Lt L). unfold names_of. simpl.
      destruct (Z.eqb n (iname x)); lia.
    + destruct (Z.eqb_spec t k) as [E|N].
      * unfold names_of. simpl. rewrite map_app, !zcount_app. simpl.
        destruct (Z.eqb n (iname x)); lia.
      * unfold names_of. simpl. rewrite !zcount_app.
        fold (names_of (aset t (match aget t r with Some l0 => l0 | None => [] end ++ [x]) r)).
        fold (lst r t). rewrite (IH t x n S). fold (names_of r). lia.
Qed.

Definition svc_name_count (n : Z) (s : svc) : nat :=
  match s with Svc _ n' => if Z.eqb n n' then 1%nat else 0%nat | SBad _ => 0%nat end.

Lemma names_fold_services id st n svcs : forall c, sorted c ->
  zcount n (names_of (fold_left (add_service id st) svcs c)) =
  (zcount n (names_of c) +
   zcount n (flat_map (fun s => match s with Svc _ n' => [n'] | SBad _ => [] end) svcs))%nat.
Proof.
  induction svcs as [|s r IH]; intros c S; simpl; [lia|].
  rewrite IH by (apply add_service_sorted; exact S). rewrite zcount_app.
  destruct s as [t n'|v]; simpl.
  - rewrite names_aset_snoc by exact S. simpl. destruct (Z.eqb n n'); lia.
  - lia.
Qed.

Lemma names_p_working n ms : forall c, sorted c ->
  zcount n (names_of (p_working ms c)) = (zcount n (names_of c) + zcount n (spec_work_names ms))%nat.
Proof.
  induction ms as [|m r IH]; intros c S; simpl; [lia|].
  unfold p_working in *. simpl. rewrite zcount_app.
  destruct (is_work (mstate m)).
  - rewrite IH by (apply fold_services_sorted; exact S).
    rewrite names_fold_services by exact S. lia.
  - rewrite IH by exact S. simpl. lia.
Qed.

Lemma names_set_pids mm c : names_of (set_pids mm c) = names_of c.
Proof.
  unfold names_of, set_pids. induction c as [|[t l] r IH]; simpl; [reflexivity|].
  rewrite IH, map_map. reflexivity.
Qed.

Lemma work_names_counts ms n :
  zcount n (get_work_names (make_members ms)) = zcount n (spec_work_names ms).
Proof.
  unfold get_work_names. rewrite make_members_eq. simpl.
  fold (names_of (set_pids (p_members ms []) (p_working ms []))).
  rewrite names_set_pids, names_p_working by exact I. reflexivity.
Qed.

Lemma last_with_cons x r id :
  last_with (x :: r) id =
  match last_with r id with
  | Some m => Some m
  | None => if Z.eqb (mid x) id then Some x else None
  end.
Proof. unfold last_with at 1. simpl. rewrite last_with_from. reflexivity. Qed.

Lemma last_with_id ms id m : last_with ms id = Some m -> mid m = id.
Proof.
  induction ms as [|x r IH]; [discriminate|].
  rewrite last_with_cons. destruct (last_with r id) as [y|] eqn:E.
  - intro H. inv H. apply IH. reflexivity.
  - destruct (Z.eqb_spec (mid x) id); intro H; inv H. reflexivity.
Qed.

Lemma last_with_some_in ms m : In m ms -> exists m', last_with ms (mid m) = Some m'.
Proof.
  induction ms as [|x r IH]; intro J; [contradiction|].
  rewrite last_with_cons. destruct J as [E|J].
  - subst x. destruct (last_with r (mid m)) as [y|]; [eauto|]. rewrite Z.eqb_refl. eauto.
  - destruct (IH J) as [m' E]. rewrite E. eauto.
Qed.

Lemma members_keys ms :
  map mid (get_members (make_members ms)) = akeys (ix_members (make_members ms)).
Proof.
  unfold get_members, akeys. rewrite map_map. apply map_ext_in. intros [id m] J. simpl.
  assert (K : mkeyed (ix_members (make_members ms))).
  { rewrite make_members_eq. simpl. apply p_members_keyed. intros i x H. discriminate. }
  apply K. apply in_aget; [|exact J].
  rewrite make_members_eq. simpl. apply p_members_sorted. exact I.
Qed.

Lemma index_ok_sound ms : index_ok ms (query_all (make_members ms)) = true.
Proof.
  unfold index_ok, query_all. rewrite !andb_true_iff.
  repeat match goal with |- _ /\ _ => split end.
  - apply (list_eqb_spec _ typed_pair_spec). apply map_ext. intro t. rewrite type_lists. reflexivity.
  - apply (list_eqb_spec _ typed_pair_spec). apply map_ext. intro t. rewrite working_lists. reflexivity.
  - rewrite map_map. reflexivity.
  - apply forallb_forall. intros [n a] J. apply in_map_iff in J. destruct J as [n' [E _]]. inv E.
    simpl. apply admissible_b_complete. apply service_admissible.
  - apply perm_eqb_counts. intro n. rewrite !count_b_zcount. apply work_names_counts.
  - apply nodupb_NoDup. rewrite members_keys. apply sorted_nodup_keys.
    rewrite make_members_eq. simpl. apply p_members_sorted. exact I.
  - apply forallb_forall. intros m J. apply members_listed in J. rewrite J. simpl.
    apply member_eqb_spec. reflexivity.
  - apply forallb_forall. intros m J. apply zmem_In.
    destruct (last_with_some_in ms m J) as [m' E].
    rewrite <- (last_with_id _ _ _ E). apply in_map.
    apply members_listed. rewrite (last_with_id _ _ _ E). exact E.
Qed.

Lemma pub_ok_sound self listing seen mem :
  (forallb conform_evb seen = true -> mem = implied self listing seen) ->
  pub_ok self listing seen (publish mem) (query_all (make_members (publish mem))) = true.
Proof.
  intro H. unfold pub_ok. apply andb_true_iff. split; [|apply index_ok_sound].
  destruct (forallb conform_evb seen) eqn:C; [|reflexivity].
  rewrite (H eq_refl). apply andb_true_iff. split; [apply perm_eqb_refl|].
  apply existsb_exists. exists (member_of self). split; [|apply member_eqb_spec; reflexivity].
  unfold publish.
  change (member_of self) with ((fun kn : Z * node => member_of (snd kn)) (nid self, self)).
  apply in_map. apply aget_in. unfold implied. apply aget_aset_same.
Qed.

(* ================================================================== self state changes *)
Lemma rel_implied self listing seen mem :
  rel self mem (fold_left sstep seen (listed listing)) -> mem = implied self listing seen.
Proof.
  intro R. unfold implied. apply rel_eq; [exact R|]. apply fold_sstep_sorted. apply listed_sorted.
Qed.

Lemma with_state_id n : with_state n (nstate n) = n.
Proof. destruct n. reflexivity. Qed.

Lemma rel_set_state self mem m0 s :
  rel self mem m0 -> rel (with_state self s) (set_self_state self s mem) m0.
Proof.
  intros [Rs Ro Rk Rsd]. unfold set_self_state. rewrite Rs, Z.eqb_refl.
  constructor; simpl.
  - apply aget_aset_same.
  - intros k Hk. rewrite aget_aset_other by exact Hk. apply Ro. exact Hk.
  - intros k nd. rewrite aget_aset.
    destruct (Z.eqb_spec k (nid self)) as [E|N]; [intro H; inv H; reflexivity | apply Rk].
  - apply sorted_aset. exact Rsd.
Qed.

Lemma hist_rel h : forall self mem m0,
  rel self mem m0 -> Forall conform_ev (events_of h) ->
  rel (fst (fold_left hstep h (self, mem))) (snd (fold_left hstep h (self, mem)))
      (fold_left sstep (events_of h) m0) /\
  fst (fold_left hstep h (self, mem)) = current_self self h.
Proof.
  induction h as [|x r IH]; intros self mem m0 R F; [simpl; auto|].
  destruct x as [b|s|]; simpl in F |- *.
  - apply Forall_app in F. destruct F as [Fb Fr]. rewrite fold_left_app.
    apply IH; [apply step_batch_rel; assumption | exact Fr].
  - apply IH; [apply rel_set_state; exact R | exact F].
  - apply IH; assumption.
Qed.

Theorem fold_hist_eq self listing h :
  Forall conform_ev (events_of h) ->
  fold_hist self listing h =
  (current_self self h, implied (current_self self h) listing (events_of h)).
Proof.
  intro F. unfold fold_hist.
  destruct (hist_rel h self _ _ (init_rel self listing) F) as [R E].
  rewrite (surjective_pairing (fold_left hstep h (self, init_members self listing))).
  rewrite <- E. f_equal. apply rel_implied. exact R.
Qed.

(* the state the node set last *)
Definition last_state_from (st : Z) (h : list hop) : Z :=
  fold_left (fun st x => match x with HSelf s => s | _ => st end) h st.

Lemma current_self_eq h : forall self,
  current_self self h = with_state self (last_state_from (nstate self) h).
Proof.
  induction h as [|x r IH]; intro self; simpl.
  - symmetry. apply with_state_id.
  - destruct x as [b|s|]; apply IH.
Qed.

Theorem self_state_current self listing h :
  Forall conform_ev (events_of h) ->
  In (Mb (nid self) (last_state_from (nstate self) h) (naddr self) (nsvcs self))
     (publish (snd (fold_hist self listing h))).
Proof.
  intro F. rewrite (fold_hist_eq self listing h F). simpl.
  change (Mb (nid self) (last_state_from (nstate self) h) (naddr self) (nsvcs self))
    with (member_of (with_state self (last_state_from (nstate self) h))).
  rewrite <- current_self_eq. unfold publish.
  change (member_of (current_self self h))
    with ((fun kn : Z * node => member_of (snd kn)) (nid (current_self self h), current_self self h)).
  apply in_map. apply aget_in. unfold implied. apply aget_aset_same.
Qed.

(* ================================================================== the other getters *)
Lemma lst_types ms t : lst (ix_types (make_members ms)) t = spec_list ms t.
Proof.
  pose proof (type_lists ms t) as H. unfold get_list in H. unfold lst. rewrite H.
  destruct (spec_list ms t); reflexivity.
Qed.

Lemma lst_working ms t : lst (ix_working (make_members ms)) t = spec_work ms t.
Proof.
  pose proof (working_lists ms t) as H. unfold get_work in H. unfold lst. rewrite H.
  destruct (spec_work ms t); reflexivity.
Qed.

Theorem first_service ms t :
  get_first (make_members ms) t = first_of (spec_list ms t) /\
  get_first_work (make_members ms) t = first_of (spec_work ms t).
Proof. unfold get_first, get_first_work. rewrite lst_types, lst_working. auto. Qed.

Theorem pick_member ms t i it :
  (pick (make_members ms) t i = Some it -> In it (spec_list ms t)) /\
  (pick_work (make_members ms) t i = Some it -> In it (spec_work ms t)).
Proof.
  unfold pick, pick_work. rewrite lst_types, lst_working.
  split; intro H; eapply nth_error_In; exact H.
Qed.

Theorem pick_total ms t :
  (spec_list ms t <> [] -> exists it, pick (make_members ms) t 0 = Some it) /\
  (spec_list ms t = [] -> forall i, pick (make_members ms) t i = None).
Proof.
  unfold pick. rewrite lst_types. split.
  - destruct (spec_list ms t) as [|it r]; [intro N; contradiction | intros _; simpl; eauto].
  - intros E i. rewrite E. destruct i; reflexivity.
Qed.

Theorem service_pid_unique ms n t it :
  unique_name ms n -> In it (spec_list ms t) -> iname it = n ->
  get_pid (make_members ms) n = ipid it /\
  get_work_pid (make_members ms) n = (if is_work (istate it) then ipid it else None).
Proof.
  intros U I E. unfold get_pid, get_work_pid. rewrite (service_unique ms n t it U I E). auto.
Qed.

Lemma item_eqb_refl it : item_eqb it it = true.
Proof. apply item_eqb_spec. reflexivity. Qed.

Lemma opt_z_eqb_refl p : opt_z_eqb p p = true.
Proof. apply (option_eqb_spec Z.eqb Z.eqb_eq). reflexivity. Qed.

Lemma opt_item_eqb_refl p : opt_item_eqb p p = true.
Proof. apply (option_eqb_spec item_eqb item_eqb_spec). reflexivity. Qed.

Lemma flat_map_nil {A B} (f : A -> list B) l : (forall x, In x l -> f x = []) -> flat_map f l = [].
Proof.
  induction l as [|x r IH]; intro H; simpl; [reflexivity|].
  rewrite (H x) by (left; reflexivity). apply IH. intros y I. apply H. right. exact I.
Qed.

(* what GetService answers is one of the candidates; no candidates iff it answers nil *)
Lemma service_cands ms n :
  match get_service (make_members ms) n with
  | Some it => In it (cands (types_of ms) (spec_list ms) n)
  | None => cands (types_of ms) (spec_list ms) n = []
  end.
Proof.
  pose proof (service_admissible ms n) as A.
  destruct (get_service (make_members ms) n) as [it|]; simpl in A.
  - destruct A as [t F]. unfold cands. apply in_flat_map. exists t. split.
    + apply zcount_In. rewrite <- type_list_length.
      apply find_some in F. destruct F as [I _]. destruct (spec_list ms t); [contradiction | simpl; lia].
    + rewrite F. left. reflexivity.
  - unfold cands. apply flat_map_nil. intros t _.
    destruct (find (named n) (spec_list ms t)) as [it|] eqn:F; [|reflexivity].
    apply find_some in F. destruct F as [I N]. unfold named in N. apply Z.eqb_eq in N.
    exfalso. exact (A t it I N).
Qed.

Section ExtSound.
  Variables (tys : list Z) (L W : Z -> list item) (ix : index).
  Hypothesis HL : forall t, lst (ix_types ix) t = L t.
  Hypothesis HW : forall t, lst (ix_working ix) t = W t.
  Hypothesis Hadm : forall n, match get_service ix n with
                              | Some it => In it (cands tys L n)
                              | None => cands tys L n = []
                              end.

  Lemma pick_first_ok l : pick_ok l (first_of l) = true.
  Proof. destruct l as [|it r]; simpl; [reflexivity|]. rewrite item_eqb_refl. reflexivity. Qed.

  Lemma pick_pid_first_ok l : pick_pid_ok l (pid_of (first_of l)) = true.
  Proof. destruct l as [|it r]; simpl; [reflexivity|]. rewrite opt_z_eqb_refl. reflexivity. Qed.

  Lemma pick_name_first_ok l : pick_name_ok l (name_of (first_of l)) = true.
  Proof. destruct l as [|it r]; simpl; [reflexivity|]. unfold named. rewrite Z.eqb_refl. reflexivity. Qed.

  Lemma lookup_sound (f : option item -> option Z) n :
    f None = None -> lookup_ok tys L f n (f (get_service ix n)) = true.
  Proof.
    intro Fn. unfold lookup_ok. specialize (Hadm n).
    destruct (get_service ix n) as [it|].
    - destruct (cands tys L n) as [|c cs] eqn:E; [contradiction|].
      rewrite <- E. apply existsb_exists. exists it. split; [rewrite E; exact Hadm | apply opt_z_eqb_refl].
    - rewrite Hadm, Fn. reflexivity.
  Qed.

  Lemma ext_sound : ext_ok tys L W (ext_of ix) = true.
  Proof.
    unfold ext_ok, ext_of. rewrite !andb_true_iff.
    repeat match goal with |- _ /\ _ => split end.
    - rewrite map_map. reflexivity.
    - apply forallb_forall. intros x I. apply in_map_iff in I. destruct I as [t [E _]]. subst x.
      unfold qt_ok, get_first, get_first_work. rewrite HL, HW.
      rewrite !opt_item_eqb_refl, !opt_z_eqb_refl, !pick_first_ok, !pick_pid_first_ok, !pick_name_first_ok.
      reflexivity.
    - rewrite map_map. reflexivity.
    - apply forallb_forall. intros x I. apply in_map_iff in I. destruct I as [n [E _]]. subst x.
      unfold qn_ok, get_pid, get_work_pid.
      rewrite (lookup_sound pid_of n eq_refl), (lookup_sound work_pid_of n eq_refl). reflexivity.
  Qed.
End ExtSound.

Theorem ext_spec_sound ms : ext_ok_spec ms (ext_of (make_members ms)) = true.
Proof.
  unfold ext_ok_spec. apply ext_sound.
  - apply lst_types.
  - apply lst_working.
  - apply service_cands.
Qed.

(* what the node registers for itself satisfies the conformance guard of the fold theorems *)
Theorem registration_conforms self s : conform_ev (EPut (nid self) (with_state (mk_self self) s)).
Proof. simpl. auto. Qed.
