(* C08 - model of the etcd membership fold and of the service directory.  No proofs here.

   Part A  node/cluster/clusterproviders/etcd/etcd_provider.go
     Provider.members  map[string]*Node (key = last segment of the etcd key)   alist node
     handleWatchResponse      one watch response -> changes map                handle_batch
     updateNodesWithChanges   apply changes, drop dead members                 apply_changes
     fetchNodes + updateNodesWithSelf  initial listing keyed by Node.ID, then self   init_members
     createClusterTopologyEvent  MemberStatus of every member                  publish
     _keepWatching            per response: empty -> skipped (no publication), else
                              handle, apply, publish                           publications
     UpdateClusterState       p.self.State = s (p.self is the record in members)   set_self_state
     startWatching loop       stream closed / error response -> new watch, same members   HRewatch
     registerService / keepAliveForever   Put of the node's own record (at start, after a state
                              change, after the keep-alive stream ended)       BStart regs / BReg
     StartMember / Shutdown   provider life                                    OStart / OShutdown
   The model is the REPAIRED code (hooks/C08-fix-delete-cancels-pending-put.patch): a DELETE
   of a node that is not in members also removes a change pending for it in the same
   response.  [handle_ev_old] is the code before the repair (defect F9), kept for the
   regression example in Props.v.

   Part B  node/app/clusterservices.go  MakeMembers / addService / makePID / getters
   (REPAIRED: hooks/C08-fix-working-list-pid.patch, working-list items get their PID too;
   [make_members_old] is the code before that repair).

   Part C  ClusterServices.MakeMembers (build locally, then four reference stores) running
   concurrently with readers; every getter loads exactly one of the four references.

   Tokens: node ids, service types, service names, addresses and states are Z tokens that the
   harness maps injectively to Go strings / host:port pairs.  A full service name is either
   well formed "type.name" ([Svc t n]) or malformed ([SBad v]: no dot, two dots, empty type or
   empty name - SplitServiceName answers ("","") or addService returns early for all of them).
   Go map iteration order is never observable here: association lists are kept sorted by key. *)
From Cell2V Require Import Common.Tac Common.ListX Common.AList.

(* ------------------------------------------------------------------ data *)
Inductive svc := Svc (t n : Z) | SBad (v : Z).

(* etcd.Node as stored in etcd (JSON value): ID, Alive, State, address (Host:Port), Services *)
Record node := Nd { nid : Z; nalive : bool; nstate : Z; naddr : Z; nsvcs : list svc }.

(* cluster.Member as published: Id, State, Host:Port, Services *)
Record member := Mb { mid : Z; mstate : Z; maddr : Z; msvcs : list svc }.

Inductive ev :=
| EPut (k : Z) (n : node)    (* PUT  key=.../k  value=json(n) *)
| EDel (k : Z)               (* DELETE key=.../k *)
| EJunk (k v : Z).           (* PUT with undecodable value (v=0) / unknown event type (v=1): skipped *)

(* ------------------------------------------------------------------ part A *)
Definition dead (n : node) : node := Nd (nid n) false (nstate n) (naddr n) (nsvcs n).

(* one event of handleWatchResponse; [mem] = p.members (not changed while a response is
   handled), [ch] = the changes map built so far *)
Definition handle_ev (self : node) (mem ch : alist node) (e : ev) : alist node :=
  match e with
  | EPut k n => if Z.eqb (nid self) (nid n) then ch else aset k n ch
  | EDel k =>
      match aget k mem with
      | None => adel k ch
      | Some nd => if Z.eqb (nid self) (nid nd) then ch else aset k (dead nd) ch
      end
  | EJunk _ _ => ch
  end.

(* the code before the repair: DELETE of a node absent from members is ignored *)
Definition handle_ev_old (self : node) (mem ch : alist node) (e : ev) : alist node :=
  match e with
  | EDel k =>
      match aget k mem with
      | None => ch
      | Some nd => if Z.eqb (nid self) (nid nd) then ch else aset k (dead nd) ch
      end
  | _ => handle_ev self mem ch e
  end.

Definition handle_batch (self : node) (mem : alist node) (b : list ev) : alist node :=
  fold_left (handle_ev self mem) b [].

(* updateNodesWithChanges: members[k] = n; if !n.Alive delete(members, k).  Keys of [ch] are
   distinct, so the (arbitrary) iteration order of the Go map does not matter. *)
Fixpoint apply_changes (mem ch : alist node) : alist node :=
  match ch with
  | [] => mem
  | (k, n) :: r =>
      let m := apply_changes mem r in
      if nalive n then aset k n m else adel k m
  end.

Definition step_batch (self : node) (mem : alist node) (b : list ev) : alist node :=
  apply_changes mem (handle_batch self mem b).

Definition step_batch_old (self : node) (mem : alist node) (b : list ev) : alist node :=
  apply_changes mem (fold_left (handle_ev_old self mem) b []).

(* updateNodes (keyed by Node.ID, later entries win) then members[self.ID] = self *)
Definition of_listing (listing : list node) : alist node :=
  fold_left (fun m n => aset (nid n) n m) listing [].

Definition init_members (self : node) (listing : list node) : alist node :=
  aset (nid self) self (of_listing listing).

Definition fold_watch (self : node) (listing : list node) (bs : list (list ev)) : alist node :=
  fold_left (step_batch self) bs (init_members self listing).

Definition fold_watch_old (self : node) (listing : list node) (bs : list (list ev)) : alist node :=
  fold_left (step_batch_old self) bs (init_members self listing).

(* UpdateClusterState: p.self.State = state.  p.self is the very record stored under the node's
   own key (updateNodesWithSelf), so the member map sees the change at the next publication.  An
   entry whose id is the node's id can only be that record: a PUT carrying the node's own id is
   never applied and the listing entry with that id is overwritten by the node's record. *)
Definition with_state (n : node) (s : Z) : node := Nd (nid n) (nalive n) s (naddr n) (nsvcs n).

Definition set_self_state (self : node) (s : Z) (mem : alist node) : alist node :=
  match aget (nid self) mem with
  | Some x => if Z.eqb (nid x) (nid self) then aset (nid self) (with_state x s) mem else mem
  | None => mem
  end.

(* a history of the provider: watch responses interleaved with the node's own state changes and
   with ends of the watch stream (closed or failed: the provider opens a new watch and goes on) *)
Inductive hop := HBatch (b : list ev) | HSelf (s : Z) | HRewatch.

Definition hstep (sm : node * alist node) (h : hop) : node * alist node :=
  let '(self, mem) := sm in
  match h with
  | HBatch b => (self, step_batch self mem b)
  | HSelf s => (with_state self s, set_self_state self s mem)
  | HRewatch => (self, mem)
  end.

Definition fold_hist (self : node) (listing : list node) (h : list hop) : node * alist node :=
  fold_left hstep h (self, init_members self listing).

Definition member_of (n : node) : member := Mb (nid n) (nstate n) (naddr n) (nsvcs n).

Definition publish (mem : alist node) : list member := map (fun kn => member_of (snd kn)) mem.

Definition is_nil {A} (l : list A) : bool := match l with [] => true | _ => false end.

(* the member maps published while the watch stream [bs] is folded (one per non-empty
   response; the publication made by StartMember itself is [init_members]) *)
Fixpoint publications (self : node) (mem : alist node) (bs : list (list ev)) : list (alist node) :=
  match bs with
  | [] => []
  | b :: r =>
      if is_nil b then publications self mem r
      else let m := step_batch self mem b in m :: publications self m r
  end.

(* ------------------------------------------------------------------ part B *)
Record item := It { iname : Z; inode : Z; istate : Z; ipid : option Z }.

Record index := Ix {
  ix_members : alist member;          (* s.members          nodeId -> Member *)
  ix_types : alist (list item);       (* s.typeServices     type -> ServiceList.Items *)
  ix_working : alist (list item);     (* s.workingServices  type -> ServiceList.Items *)
  ix_services : alist item            (* s.services         name -> ServiceItem *)
}.

Definition working_state : Z := 1.   (* define.Working *)
Definition is_work (s : Z) : bool := Z.eqb s working_state.

Definition lst {A} (c : alist (list A)) (t : Z) : list A :=
  match aget t c with Some l => l | None => [] end.

(* addService *)
Definition add_service (id st : Z) (c : alist (list item)) (s : svc) : alist (list item) :=
  match s with
  | SBad _ => c
  | Svc t n => aset t (lst c t ++ [It n id st None]) c
  end.

Definition acc3 := (alist member * alist (list item) * alist (list item))%type.

(* one iteration of the first loop of MakeMembers (the two addService calls per service go to
   two independent maps, so they are written as two folds) *)
Definition add_member (a : acc3) (m : member) : acc3 :=
  let '(ms, ty, wk) := a in
  (aset (mid m) m ms,
   fold_left (add_service (mid m) (mstate m)) (msvcs m) ty,
   if is_work (mstate m) then fold_left (add_service (mid m) (mstate m)) (msvcs m) wk else wk).

(* makePID: address of the item's node in the new members map (nil when absent) *)
Definition with_pid (ms : alist member) (it : item) : item :=
  It (iname it) (inode it) (istate it)
     (match aget (inode it) ms with Some m => Some (maddr m) | None => None end).

Definition set_pids (ms : alist member) (c : alist (list item)) : alist (list item) :=
  map (fun tl => (fst tl, map (with_pid ms) (snd tl))) c.

(* newServices: the first item seen for a name wins.  The Go code walks the type map in
   arbitrary order; the model walks it by ascending type token, which is one of the admissible
   orders (see [admissible_service] in Spec.v for the set of all admissible answers). *)
Definition add_name (a : alist item) (it : item) : alist item :=
  match aget (iname it) a with Some _ => a | None => aset (iname it) it a end.

Definition build_services (ty : alist (list item)) : alist item :=
  fold_left (fun a tl => fold_left add_name (snd tl) a) ty [].

Definition make_members (ms : list member) : index :=
  let '(mm, ty, wk) := fold_left add_member ms ([], [], []) in
  let ty' := set_pids mm ty in
  Ix mm ty' (set_pids mm wk) (build_services ty').

(* before the repair: PIDs only on the per-type lists *)
Definition make_members_old (ms : list member) : index :=
  let '(mm, ty, wk) := fold_left add_member ms ([], [], []) in
  let ty' := set_pids mm ty in
  Ix mm ty' wk (build_services ty').

(* NewClusterServices(): empty / nil maps *)
Definition empty_index : index := Ix [] [] [] [].

(* getters *)
Definition get_list (ix : index) (t : Z) : option (list item) := aget t (ix_types ix).
Definition get_work (ix : index) (t : Z) : option (list item) := aget t (ix_working ix).
Definition get_work_names (ix : index) : list Z :=
  flat_map (fun tl => map iname (snd tl)) (ix_working ix).
Definition get_service (ix : index) (n : Z) : option item := aget n (ix_services ix).
Definition get_members (ix : index) : list member := map snd (ix_members ix).

(* the package-level getters of node/app/utils.go, which go through the global node's Cluster *)
Definition first_of (l : list item) : option item := match l with it :: _ => Some it | [] => None end.
Definition pid_of (o : option item) : option Z := match o with Some it => ipid it | None => None end.
Definition work_pid_of (o : option item) : option Z :=
  match o with Some it => if is_work (istate it) then ipid it else None | None => None end.
Definition len_opt (l : list item) : option Z := match l with [] => None | _ => Some (Z.of_nat (length l)) end.

Definition get_first (ix : index) (t : Z) : option item := first_of (lst (ix_types ix) t).        (* GetFirstServiceItem *)
Definition get_first_work (ix : index) (t : Z) : option item := first_of (lst (ix_working ix) t). (* GetFirstWorkServiceItem *)
(* RandGetServiceItem / RandGetWorkServiceItem with the index rand.Intn returned *)
Definition pick (ix : index) (t : Z) (i : nat) : option item := nth_error (lst (ix_types ix) t) i.
Definition pick_work (ix : index) (t : Z) (i : nat) : option item := nth_error (lst (ix_working ix) t) i.
Definition get_pid (ix : index) (n : Z) : option Z := pid_of (get_service ix n).                 (* GetServicePID *)
Definition get_work_pid (ix : index) (n : Z) : option Z := work_pid_of (get_service ix n).       (* GetWorkServicePID *)

(* ------------------------------------------------------------------ part C *)
Inductive field := FMembers | FTypes | FWorking | FServices.

(* the order of the four stores in ClusterServices.MakeMembers (the method) *)
Definition store_order : list field := [FMembers; FTypes; FWorking; FServices].

(* copy one reference *)
Definition copy_field (f : field) (from into : index) : index :=
  match f with
  | FMembers => Ix (ix_members from) (ix_types into) (ix_working into) (ix_services into)
  | FTypes => Ix (ix_members into) (ix_types from) (ix_working into) (ix_services into)
  | FWorking => Ix (ix_members into) (ix_types into) (ix_working from) (ix_services into)
  | FServices => Ix (ix_members into) (ix_types into) (ix_working into) (ix_services from)
  end.

(* queries.  The first five are the getters of ClusterServices; each loads ONE reference.
   [QWorkThenResolve t] is a caller-level composite (first working service of a type, then its
   entry in the name map - e.g. RandGetWorkServiceName followed by GetServicePID): it loads two
   references and is NOT covered by the atomicity theorem (see Props.v). *)
Inductive query :=
| QList (t : Z)            (* GetServiceList(t) *)
| QWork (t : Z)            (* GetWorkServiceList(t) *)
| QWorkNames               (* GetWorkServiceNames() / GetWorkServices() *)
| QService (n : Z)         (* GetService(n) *)
| QMembers                 (* GetMembers() *)
| QWorkThenResolve (t : Z).

Inductive answer :=
| AItems (l : option (list item))
| ANames (l : list Z)
| AItem (i : option item)
| AMembers (l : list member).

Definition reads (q : query) : list field :=
  match q with
  | QList _ => [FTypes]
  | QWork _ | QWorkNames => [FWorking]
  | QService _ => [FServices]
  | QMembers => [FMembers]
  | QWorkThenResolve _ => [FWorking; FServices]
  end.

(* the answer as a function of the references that were loaded *)
Definition answer_of (q : query) (snap : index) : answer :=
  match q with
  | QList t => AItems (get_list snap t)
  | QWork t => AItems (get_work snap t)
  | QWorkNames => ANames (get_work_names snap)
  | QService n => AItem (get_service snap n)
  | QMembers => AMembers (get_members snap)
  | QWorkThenResolve t =>
      AItem (match get_work snap t with
             | Some (it :: _) => get_service snap (iname it)
             | _ => None
             end)
  end.

(* updater: the member lists still to be published; the index built for the list being
   published together with the stores still to do; number of completed publications *)
Record ustate := U {
  u_todo : list (list member);
  u_cur : option (index * list field);
  u_done : nat
}.

(* a log entry: query, answer, and (ghost) how many publications were complete / started when
   the answering load was made *)
Record entry := En { e_query : query; e_answer : answer; e_lo : nat; e_hi : nat }.

(* reader: queries still to make; for the query in progress the references loaded so far and
   the loads still to do; the answers obtained *)
Record rstate := R {
  r_todo : list query;
  r_cur : option (query * index * list field);
  r_log : list entry
}.

Record sys := Sys { shared : index; upd : ustate; rds : list rstate }.

Definition started (u : ustate) : nat :=
  match u_cur u with Some _ => S (u_done u) | None => u_done u end.

(* one atomic step of the updater *)
Definition ustep (s : sys) : sys :=
  let u := upd s in
  match u_cur u with
  | None =>
      match u_todo u with
      | [] => s
      | ms :: r => (* MakeMembers(members): builds the four new maps locally *)
          Sys (shared s) (U r (Some (make_members ms, store_order)) (u_done u)) (rds s)
      end
  | Some (ix, []) => Sys (shared s) (U (u_todo u) None (S (u_done u))) (rds s)
  | Some (ix, f :: fs) => (* s.<f> = m_i *)
      Sys (copy_field f ix (shared s)) (U (u_todo u) (Some (ix, fs)) (u_done u)) (rds s)
  end.

(* one atomic step of a reader: start the next query, or load one reference; the answer is
   computed (locally) right after the last load *)
Definition rstep (sh : index) (lo hi : nat) (r : rstate) : rstate :=
  match r_cur r with
  | None =>
      match r_todo r with
      | [] => r
      | q :: qs => R qs (Some (q, empty_index, reads q)) (r_log r)
      end
  | Some (q, snap, []) => R (r_todo r) None (r_log r ++ [En q (answer_of q snap) lo hi])
  | Some (q, snap, [f]) =>
      let snap' := copy_field f sh snap in
      R (r_todo r) None (r_log r ++ [En q (answer_of q snap') lo hi])
  | Some (q, snap, f :: fs) => R (r_todo r) (Some (q, copy_field f sh snap, fs)) (r_log r)
  end.

Fixpoint update_nth {A} (n : nat) (f : A -> A) (l : list A) : list A :=
  match l, n with
  | [], _ => []
  | x :: r, O => f x :: r
  | x :: r, S k => x :: update_nth k f r
  end.

(* thread 0 is the updater, thread i+1 is reader i; a step of a finished or non-existent
   thread leaves the system unchanged *)
Definition step (s : sys) (tid : nat) : sys :=
  match tid with
  | O => ustep s
  | S i =>
      Sys (shared s) (upd s) (update_nth i (rstep (shared s) (u_done (upd s)) (started (upd s))) (rds s))
  end.

Definition run_sched (s : sys) (sched : list nat) : sys := fold_left step sched s.

Definition init_sys (pubs : list (list member)) (progs : list (list query)) : sys :=
  Sys empty_index (U pubs None O) (map (fun p => R p None []) progs).

(* the views a reader may legitimately see: the initial (empty) directory, then one per
   published list *)
Definition view (pubs : list (list member)) (k : nat) : index :=
  match k with
  | O => empty_index
  | S j => make_members (nth j pubs [])
  end.

(* ------------------------------------------------------------------ driver used by Corr.v *)
(* an entry of the initial Get result: a decodable record / an undecodable value *)
Inductive lent := LNode (n : node) | LJunk | LFail.   (* LFail: the Get itself fails *)

Fixpoint listing_nodes (l : list lent) : option (list node) :=
  match l with
  | [] => Some []
  | LNode n :: r => match listing_nodes r with Some ns => Some (n :: ns) | None => None end
  | (LJunk | LFail) :: _ => None
  end.

(* a provider life on a SCRIPTED key space (start-up, re-watch, re-listing, shutdown): what other
   nodes do to the key space ... *)
Inductive mut := MPut (n : node) | MDel (k : Z).   (* PUT key=.../(nid n) value=json(n) / DELETE key=.../k *)

(* ... and the schedule: when the server evaluates a request and when a response reaches the provider.
   An action that is not possible in the current situation is a no-op. *)
Inductive act :=
| AMut (m : mut)        (* the key space moves on by one revision *)
| AGetEval              (* the pending prefix Get is evaluated: snapshot + revision *)
| AGetResp              (* that response reaches the provider *)
| AGetFail              (* the pending Get fails instead *)
| AWatch                (* the server registers the pending Watch request: it starts at the requested revision,
                           without one right after the CURRENT revision; compacted start -> error response *)
| ADeliver (n : Z)      (* the next (at most n) pending events of the open watch arrive as one response *)
| AWatchFail (v : Z)    (* the open watch stream ends: 0 closed, otherwise a cancel response *)
| ACompact              (* the server compacts its history up to the current revision *)
| AShutdown.            (* Provider.Shutdown; the open stream stays deliverable (events in flight) *)

Inductive op :=
| OStart (self : node) (listing : list lent)  (* StartMember: init, fetchNodes, updateNodesWithSelf, publish,
                                                 startWatching, registerService, startKeepAlive *)
| OBatch (b : list ev)                         (* one WatchResponse through _keepWatching *)
| OSelfState (s : Z)                           (* App.UpdateNodeState -> UpdateClusterState; keep-alive tick *)
| OLeaseLost (v : Z)                           (* the keep-alive stream ends (lease expired): the node registers
                                                 again; v=1/2: the first Put / KeepAlive of the retry fails *)
| ORewatch (v : Z)                             (* the watch stream ends: 0 closed, otherwise error response *)
| OShutdown                                    (* Provider.Shutdown *)
| OQuery                                       (* the package-level getters of node/app/utils.go *)
| ONode (n : node)                             (* etcd.Node round trip *)
| OSelfCluster (id addr : Z) (svcs : list (Z * Z))  (* cluster disabled: InitSelf, BuildSelfClusterTopology *)
| OStress (a b : list member)                  (* measurement: updater alternating two views *)
| OBoot (self : node) (mode : bool) (acts : list act).
                                               (* a whole life on the scripted key space: StartMember (member)
                                                  or StartClient, the schedule, then the life is ended *)

Definition probe_types : list Z := [0; 1; 2; 3; 4].
Definition probe_names : list Z := [0; 1; 2; 3; 4; 5; 6; 7].

Inductive answers :=
| Ans (types : list (Z * option (list item)))
      (work : list (Z * option (list item)))
      (names : list (Z * option item))
      (worknames : list Z)
      (members : list member).

Definition query_all (ix : index) : answers :=
  Ans (map (fun t => (t, get_list ix t)) probe_types)
      (map (fun t => (t, get_work ix t)) probe_types)
      (map (fun n => (n, get_service ix n)) probe_names)
      (get_work_names ix)
      (get_members ix).

(* per type: GetFirstServiceItem, GetFirstWorkServiceItem, GetFirstService, GetFirstWorkService,
   RandGetServiceItem, RandGetWorkServiceItem, RandGetService, RandGetWorkService,
   RandGetServiceName, RandGetWorkServiceName, len(GetServices.Items), len(GetWorkServices.Items) *)
Inductive qtype :=
| QT (t : Z) (fi fw : option item) (fp fwp : option Z) (ri rw : option item) (rp rwp : option Z)
     (rn rwn : option Z) (ls lw : option Z).
(* per name: GetServicePID, GetWorkServicePID, App.GetService *)
Inductive qname := QN (n : Z) (pid wpid apid : option Z).
Inductive ext := Ext (ts : list qtype) (ns : list qname).

Definition name_of (o : option item) : option Z := match o with Some it => Some (iname it) | None => None end.

(* the model answers every random pick with the first element (any element is admissible) *)
Definition ext_of (ix : index) : ext :=
  Ext (map (fun t =>
              let f := get_first ix t in let w := get_first_work ix t in
              QT t f w (pid_of f) (pid_of w) f w (pid_of f) (pid_of w) (name_of f) (name_of w)
                 (len_opt (lst (ix_types ix) t)) (len_opt (lst (ix_working ix) t))) probe_types)
      (map (fun n => QN n (get_pid ix n) (get_work_pid ix n) (get_pid ix n)) probe_names).

(* what one action of a scripted life shows *)
Inductive bobs :=
| XNone                                   (* not possible now / nothing to see *)
| XAck                                    (* a pending request was there and has been served *)
| XFail                                   (* StartMember / StartClient returned an error *)
| XStart (regs : list (Z * node)) (wired : bool) (ms : list member) (q : answers)
                                          (* the start call returned: registrations, requests as expected,
                                             first publication + queries *)
| XPub (ms : list member) (q : answers)   (* a publication + queries *)
| XWReg (start : Z)                       (* the watch is registered; first revision it will deliver *)
| XWComp                                  (* the watch was answered with a compaction error *)
| XWatch (n : Z) (healthy : bool)         (* Watch calls so far, GetHealthStatus() == nil *)
| XDown (k : Z) (cancelled : bool).       (* key deregistered, watch context cancelled *)

Inductive obs :=
| BNone                                   (* nothing to observe (no provider / empty response) *)
| BFail                                   (* StartMember returned an error *)
| BStart (regs : list (Z * node)) (wired : bool) (ms : list member) (q : answers)
                                          (* records registered for the node, Get/Watch/KeepAlive
                                             issued as expected, first publication + queries *)
| BPub (ms : list member) (q : answers)   (* published list, and the battery of queries after it *)
| BReg (k : Z) (n : node)                 (* the node registered record n under key k *)
| BWatch (n : Z) (healthy : bool)         (* watches opened so far, GetHealthStatus() == nil *)
| BDown (k : Z) (cancelled : bool)        (* key deregistered, watch context cancelled *)
| BQuery (e : ext)
| BNode (n : node) (ok : bool)
| BStress (ok : bool)
| BBoot (xs : list bobs).                 (* one entry per action of the script *)

(* NewNode: the node's own record is alive; an address that is no host:port becomes the pseudo
   address nonhost:-1 (token -1) when it is the literal "nonhost" and an error otherwise *)
Definition mk_self (n : node) : node := Nd (nid n) true (nstate n) (naddr n) (nsvcs n).

Record prov := Pv { p_self : node; p_mem : alist node; p_watches : Z; p_err : bool }.

(* provider (None: none running) and the directory = the list last handed to the Cluster *)
Definition pstate := (option prov * list member)%type.

Definition pub_of (mem : alist node) : list member * answers :=
  let ms := publish mem in (ms, query_all (make_members ms)).


(* ------------------------------------------------------------------ the scripted life *)
(* The key space: mutation number i (0-based) of [log] is revision i+2, the empty key space is
   revision 1.  Positions are counted in mutations: "the key space at position r" is the one after
   the first r mutations (revision r+1). *)
Definition mstep (m : alist node) (mu : mut) : alist node :=
  match mu with MPut n => aset (nid n) n m | MDel k => adel k m end.

Definition snap (log : list mut) (r : nat) : alist node := fold_left mstep (firstn r log) [].

Definition ev_of (mu : mut) : ev := match mu with MPut n => EPut (nid n) n | MDel k => EDel k end.

(* requests in flight *)
Inductive gst := GNone | GWait | GFlight (nodes : list node) (r : nat).
                 (* no Get / Get waiting at the server / evaluated at position r, response in flight *)
Inductive wst := WNone | WReq (req : option nat) | WOpen (next : nat) | WDead.
                 (* no watch / Watch called, not registered yet (requested start position; None: "now") /
                    registered, next event to deliver is mutation [next] / the watch loop has ended *)
Inductive pcs := PStart | PRun | PFailed.
                 (* the start call waits for the listing / has returned nil / has returned an error *)

Record boot := Bt {
  b_log : list mut;          (* the key space's history *)
  b_compact : nat;           (* events of the first b_compact mutations are compacted away *)
  b_get : gst;
  b_watch : wst;
  b_pc : pcs;
  b_down : bool;             (* p.shutdown *)
  b_mem : alist node;        (* p.members *)
  b_seen : nat;              (* p.revision - 1: the position the member table is at *)
  b_watches : Z;             (* Watch calls so far *)
  b_err : bool;              (* p.clusterError != nil *)
  b_dir : list member        (* the list last handed to the Cluster *)
}.

Definition boot0 (dir : list member) : boot := Bt [] 0 GWait WNone PStart false [] 0 0 false dir.

(* StartMember: updateNodesWithSelf / StartClient: updateNodes; listAgain: the same on an EMPTY table *)
Definition boot_listing (mode : bool) (self : node) (nodes : list node) : alist node :=
  if mode then init_members self nodes else of_listing nodes.

(* keepWatching: WithRev(p.revision+1) - the REPAIRED code (hooks/C08-fix-watch-from-listing-revision.patch).
   [fixed = false] is the code before the repair: no start revision, the watch begins at "now".
   (p.revision > 0 always holds here: revisions start at 1.) *)
Definition wreq (fixed : bool) (seen : nat) : option nat := if fixed then Some seen else None.

Definition bstep (fixed : bool) (self : node) (mode : bool) (s : boot) (a : act) : boot * bobs :=
  match a with
  | AMut m =>
      (Bt (b_log s ++ [m]) (b_compact s) (b_get s) (b_watch s) (b_pc s) (b_down s) (b_mem s) (b_seen s)
          (b_watches s) (b_err s) (b_dir s), XNone)
  | AGetEval =>
      match b_get s with
      | GWait =>
          let r := length (b_log s) in
          (Bt (b_log s) (b_compact s) (GFlight (map snd (snap (b_log s) r)) r) (b_watch s) (b_pc s) (b_down s)
              (b_mem s) (b_seen s) (b_watches s) (b_err s) (b_dir s), XAck)
      | _ => (s, XNone)
      end
  | AGetResp =>
      match b_get s with
      | GFlight nodes r =>
          let mem := boot_listing mode self nodes in
          let '(ms, q) := pub_of mem in
          match b_pc s with
          | PStart => (* fetchNodes, updateNodes[WithSelf], publish, startWatching, registerService, startKeepAlive *)
              (Bt (b_log s) (b_compact s) GNone (WReq (wreq fixed r)) PRun false mem r 1 false ms,
               XStart (if mode then [(nid self, self); (nid self, self)] else []) true ms q)
          | PRun => (* listAgain in the watch goroutine, then keepWatching: the next watch - after Shutdown on
                       the cancelled context, i.e. a stream that is closed at once, and the loop ends *)
              (Bt (b_log s) (b_compact s) GNone (if b_down s then WDead else WReq (wreq fixed r)) PRun (b_down s)
                  mem r (b_watches s + 1) (b_err s) ms,
               XPub ms q)
          | PFailed => (s, XNone)
          end
      | _ => (s, XNone)
      end
  | AGetFail =>
      match b_get s, b_pc s with
      | GNone, _ => (s, XNone)
      | _, PStart =>
          (Bt (b_log s) (b_compact s) GNone (b_watch s) PFailed (b_down s) (b_mem s) (b_seen s) (b_watches s)
              (b_err s) (b_dir s), XFail)
      | _, PRun => (* listAgain failed: clusterError, pause, and - unless shut down - the listing is asked for again *)
          (Bt (b_log s) (b_compact s) (if b_down s then GNone else GWait) (if b_down s then WDead else b_watch s)
              PRun (b_down s) (b_mem s) (b_seen s) (b_watches s) true (b_dir s), XAck)
      | _, PFailed => (s, XNone)
      end
  | AWatch =>
      match b_watch s with
      | WReq req =>
          let i := match req with Some i => i | None => length (b_log s) end in
          if Nat.ltb (S i) (b_compact s)
          then (* compaction error: _keepWatching returns it, p.relist, the loop lists again *)
            (Bt (b_log s) (b_compact s) GWait WNone (b_pc s) (b_down s) (b_mem s) (b_seen s) (b_watches s) true
                (b_dir s), XWComp)
          else
            (Bt (b_log s) (b_compact s) (b_get s) (WOpen i) (b_pc s) (b_down s) (b_mem s) (b_seen s) (b_watches s)
                (b_err s) (b_dir s), XWReg (Z.of_nat i + 2))
      | _ => (s, XNone)
      end
  | ADeliver n =>
      match b_watch s with
      | WOpen i =>
          let k := Nat.min (Z.to_nat n) (length (b_log s) - i) in
          match k with
          | O => (s, XNone)
          | _ =>
              let mem := step_batch self (b_mem s) (map ev_of (firstn k (skipn i (b_log s)))) in
              let '(ms, q) := pub_of mem in
              (Bt (b_log s) (b_compact s) (b_get s) (WOpen (i + k)) (b_pc s) (b_down s) mem (i + k) (b_watches s)
                  (b_err s) ms, XPub ms q)
          end
      | _ => (s, XNone)
      end
  | AWatchFail v =>
      match b_watch s with
      | WOpen _ =>
          let e := b_err s || negb (Z.eqb v 0) in
          if b_down s
          then (Bt (b_log s) (b_compact s) (b_get s) WDead (b_pc s) true (b_mem s) (b_seen s) (b_watches s) e
                   (b_dir s), XWatch (b_watches s) (negb e))
          else (Bt (b_log s) (b_compact s) (b_get s) (WReq (wreq fixed (b_seen s))) (b_pc s) false (b_mem s)
                   (b_seen s) (b_watches s + 1) e (b_dir s), XWatch (b_watches s + 1) (negb e))
      | _ => (s, XNone)
      end
  | ACompact =>
      (Bt (b_log s) (length (b_log s)) (b_get s) (b_watch s) (b_pc s) (b_down s) (b_mem s) (b_seen s)
          (b_watches s) (b_err s) (b_dir s), XNone)
  | AShutdown =>
      match b_pc s, b_down s with
      | PRun, false =>
          (* deregister, cancel the watch context: a watch the server has not registered yet is closed by
             the client, a registered one stays deliverable until it ends *)
          (Bt (b_log s) (b_compact s) (b_get s) (match b_watch s with WReq _ => WDead | w => w end) PRun true
              (b_mem s) (b_seen s) (b_watches s) (b_err s) (b_dir s), XDown (nid self) true)
      | _, _ => (s, XNone)
      end
  end.

Fixpoint boot_run (fixed : bool) (self : node) (mode : bool) (s : boot) (acts : list act) : boot * list bobs :=
  match acts with
  | [] => (s, [])
  | a :: r =>
      let '(s1, x) := bstep fixed self mode s a in
      let '(s2, xs) := boot_run fixed self mode s1 r in
      (s2, x :: xs)
  end.

(* makeFullNameServices: services without a configuration entry are dropped; the configured
   type of a name is the one of its last entry *)
Definition cfg_type (svcs : list (Z * Z)) (n : Z) : option Z :=
  fold_left (fun acc nt => if Z.eqb (fst nt) n && negb (Z.eqb (snd nt) 0) then Some (snd nt) else acc) svcs None.

Definition self_cluster_member (id addr : Z) (svcs : list (Z * Z)) : member :=
  Mb id working_state (if Z.ltb addr 0 then -1 else addr)
     (flat_map (fun nt => match cfg_type svcs (fst nt) with Some t => [Svc t (fst nt)] | None => [] end) svcs).

Definition step_op (s : pstate) (o : op) : pstate * obs :=
  let '(pv, dir) := s in
  match o with
  | OStart self listing =>
      let self' := mk_self self in
      match (if Z.ltb (naddr self) (-1) then None else listing_nodes listing) with
      | None => ((None, dir), BFail)
      | Some nodes =>
          let mem := init_members self' nodes in
          let '(ms, q) := pub_of mem in
          ((Some (Pv self' mem 1 false), ms),
           BStart [(nid self', self'); (nid self', self')] true ms q)
      end
  | OBatch b =>
      match pv with
      | None => (s, BNone)
      | Some p =>
          if is_nil b then (s, BNone)
          else let mem' := step_batch (p_self p) (p_mem p) b in
               let '(ms, q) := pub_of mem' in
               ((Some (Pv (p_self p) mem' (p_watches p) (p_err p)), ms), BPub ms q)
      end
  | OSelfState st =>
      match pv with
      | None => (s, BNone)
      | Some p =>
          let self' := with_state (p_self p) st in
          ((Some (Pv self' (set_self_state (p_self p) st (p_mem p)) (p_watches p) (p_err p)), dir),
           BReg (nid self') self')
      end
  | OLeaseLost _ =>
      match pv with
      | None => (s, BNone)
      | Some p => (s, BReg (nid (p_self p)) (p_self p))
      end
  | ORewatch v =>
      match pv with
      | None => (s, BNone)
      | Some p =>
          let e := p_err p || negb (Z.eqb v 0) in
          ((Some (Pv (p_self p) (p_mem p) (p_watches p + 1) e), dir), BWatch (p_watches p + 1) (negb e))
      end
  | OShutdown =>
      match pv with
      | None => (s, BNone)
      | Some p => ((None, dir), BDown (nid (p_self p)) true)
      end
  | OQuery => (s, BQuery (ext_of (make_members dir)))
  | ONode n => (s, BNode n true)
  | OSelfCluster id addr svcs =>
      let ms := [self_cluster_member id addr svcs] in
      ((pv, ms), BPub ms (query_all (make_members ms)))
  | OStress _ _ => (s, BStress true)
  | OBoot self mode acts =>
      (* a life of its own: it ends whatever provider was running, and is ended itself after the script *)
      if Z.ltb (naddr self) (-1) then ((None, dir), BFail)
      else let '(b, xs) := boot_run true (mk_self self) mode (boot0 dir) acts in
           ((None, b_dir b), BBoot xs)
  end.

Fixpoint run_from (s : pstate) (ops : list op) : list obs :=
  match ops with
  | [] => []
  | o :: r => let '(s1, b) := step_op s o in b :: run_from s1 r
  end.

Definition init_state : pstate := (None, []).
Definition run (ops : list op) : list obs := run_from init_state ops.
