(* C08 - property theorems only.  Each is closed by [exact] of a lemma from Proofs.v and
   followed by Print Assumptions; Examples (by vm_compute) show non-vacuity and record the
   two defects found in the code before the repairs. *)
From Cell2V Require Import Common.Tac Common.ListX Common.AList C08.Model C08.Spec C08.Corr C08.Proofs C08.BootProofs C08.TraceProofs.

(* ------------------------------------------------------------------ part A: the watch fold *)

(* For ALL initial listings, ALL event lists and ALL ways the watch delivers them in batches:
   the member map the provider holds (and publishes) equals the set implied by the events in
   delivery order, plus the node itself. *)
Theorem C08_fold_eq_implied : forall self listing (bs : list (list ev)),
  Forall conform_ev (concat bs) ->
  fold_watch self listing bs = implied self listing (concat bs).
Proof. exact fold_eq_implied. Qed.
Print Assumptions C08_fold_eq_implied.

(* ... and so is every intermediate publication: one per non-empty response, equal to the set
   implied by everything delivered so far. *)
Theorem C08_every_publication : forall self listing bs,
  Forall conform_ev (concat bs) ->
  publications self (init_members self listing) bs = implied_pubs self listing [] bs.
Proof. exact publications_eq. Qed.
Print Assumptions C08_every_publication.

(* the node itself is always present, with its own record *)
Theorem C08_self_present : forall self listing bs,
  Forall conform_ev (concat bs) ->
  aget (nid self) (fold_watch self listing bs) = Some self /\
  In (member_of self) (publish (fold_watch self listing bs)).
Proof. exact self_present. Qed.
Print Assumptions C08_self_present.

(* published node ids are pairwise distinct *)
Theorem C08_published_ids_unique : forall self listing bs,
  Forall conform_ev (concat bs) -> NoDup (map mid (publish (fold_watch self listing bs))).
Proof. exact published_ids_unique. Qed.
Print Assumptions C08_published_ids_unique.

(* Histories that also contain the node's own state changes (UpdateClusterState) and ends of the
   watch stream followed by a new watch: the provider holds the set implied by all delivered
   events plus the node's record carrying the state it set LAST. *)
Theorem C08_fold_with_self_state : forall self listing (h : list hop),
  Forall conform_ev (events_of h) ->
  fold_hist self listing h =
  (current_self self h, implied (current_self self h) listing (events_of h)).
Proof. exact fold_hist_eq. Qed.
Print Assumptions C08_fold_with_self_state.

(* ... so the published self record always carries the CURRENT state (and its own id, address
   and services), whatever events about the node itself were delivered *)
Theorem C08_self_state_current : forall self listing h,
  Forall conform_ev (events_of h) ->
  In (Mb (nid self) (last_state_from (nstate self) h) (naddr self) (nsvcs self))
     (publish (snd (fold_hist self listing h))).
Proof. exact self_state_current. Qed.
Print Assumptions C08_self_state_current.

(* the records the node registers for itself (at start and after every state change) satisfy the
   guard of these theorems: own key, alive *)
Theorem C08_registration_conforms : forall self s,
  conform_ev (EPut (nid self) (with_state (mk_self self) s)).
Proof. exact registration_conforms. Qed.
Print Assumptions C08_registration_conforms.

(* what [implied] means for any other node: the last event about it decides *)
Theorem C08_implied_last_event : forall self listing evs e k,
  k <> nid self ->
  aget k (implied self listing (evs ++ [e])) =
  match e with
  | EPut k' n => if Z.eqb k k' then Some n else aget k (implied self listing evs)
  | EDel k' => if Z.eqb k k' then None else aget k (implied self listing evs)
  | EJunk _ _ => aget k (implied self listing evs)
  end.
Proof. exact implied_last_event. Qed.
Print Assumptions C08_implied_last_event.

(* ------------------------------------------------------------------ part A': a whole life under an explicit schedule *)

(* The REAL start-up, re-watch, re-listing and shutdown paths (StartMember / StartClient, the watch loop
   with its start revision, listAgain after a compaction error, Shutdown) against a key space with
   revisions, for EVERY schedule [acts]: when the server evaluates the listing, when that response
   arrives, what other nodes do in between, when the watch is registered, in which fragments its events
   arrive, when the stream fails, when the history is compacted, when the node shuts down.
   Model of the REPAIRED code (hooks/C08-fix-watch-from-listing-revision.patch).

   After any schedule the member table - and it is what was published last - is the key space at the
   position the provider has seen, plus the node itself (member) resp. for all other nodes (client). *)
Theorem C08_boot_directory : forall self mode dir acts,
  let s := fst (boot_run true self mode (boot0 dir) acts) in
  b_pc s = PRun -> Forall conform_mut (firstn (b_seen s) (b_log s)) ->
  b_dir s = publish (b_mem s) /\
  (mode = true -> b_mem s = membership true self (b_log s) (b_seen s)) /\
  (mode = false -> adel (nid self) (b_mem s) = membership false self (b_log s) (b_seen s)).
Proof. exact boot_directory. Qed.
Print Assumptions C08_boot_directory.

(* No event is lost and none is applied twice, in every schedule: the watch the provider asks for, and
   the one the server registers, continue exactly at the position of the member table; a listing in
   flight is a snapshot of the key space that is not older than the member table. *)
Theorem C08_boot_lossless : forall self mode dir acts,
  let s := fst (boot_run true self mode (boot0 dir) acts) in
  (b_seen s <= length (b_log s))%nat /\
  (forall i, b_watch s = WOpen i -> i = b_seen s) /\
  (forall req, b_watch s = WReq req -> req = Some (b_seen s)) /\
  (forall nodes r, b_get s = GFlight nodes r -> b_pc s = PRun ->
                   nodes = map snd (snap (b_log s) r) /\ (b_seen s <= r <= length (b_log s))%nat).
Proof. exact boot_lossless. Qed.
Print Assumptions C08_boot_lossless.

(* ... hence: whenever the open watch has nothing pending, the directory IS the current membership *)
Theorem C08_boot_current : forall self mode dir acts,
  let s := fst (boot_run true self mode (boot0 dir) acts) in
  b_watch s = WOpen (length (b_log s)) -> Forall conform_mut (b_log s) ->
  b_dir s = publish (b_mem s) /\
  (mode = true -> b_mem s = membership true self (b_log s) (length (b_log s))) /\
  (mode = false -> adel (nid self) (b_mem s) = membership false self (b_log s) (length (b_log s))).
Proof. exact boot_current. Qed.
Print Assumptions C08_boot_current.

(* nothing older ever overwrites something newer: along every schedule the position of the member
   table only grows (and a started provider stays started) *)
Theorem C08_boot_monotone : forall self mode dir a1 a2,
  let s1 := fst (boot_run true self mode (boot0 dir) a1) in
  let s2 := fst (boot_run true self mode (boot0 dir) (a1 ++ a2)) in
  b_pc s1 = PRun -> b_pc s2 = PRun /\ (b_seen s1 <= b_seen s2)%nat.
Proof. exact boot_monotone. Qed.
Print Assumptions C08_boot_monotone.

(* the node itself is in every list a member publishes, from the first one on *)
Theorem C08_boot_self_present : forall self dir acts,
  let s := fst (boot_run true self true (boot0 dir) acts) in
  b_pc s = PRun -> Forall conform_mut (firstn (b_seen s) (b_log s)) ->
  In (member_of self) (b_dir s).
Proof. exact boot_self_present. Qed.
Print Assumptions C08_boot_self_present.

(* the executable form of the property (Spec.v [boot_monitor]: every publication is the membership at
   the highest position shown so far, a registered watch starts no later than right after it - stated
   without reference to the order in which an implementation issues its requests) accepts the machine
   on every schedule *)
Theorem C08_boot_monitor_sound : forall self mode dir acts,
  nalive self = true ->
  boot_monitor mode self bmon0 acts (snd (boot_run true self mode (boot0 dir) acts)) = true.
Proof. exact boot_monitor_accepts. Qed.
Print Assumptions C08_boot_monitor_sound.

(* ------------------------------------------------------------------ part B: the indexes *)

(* per-type list for t = exactly the services of type t, member by member in list order, one
   item per listing, each with the address of its node; nil when there is none.  Malformed
   full names contribute nothing (raw_items). *)
Theorem C08_type_lists : forall ms t, get_list (make_members ms) t = nonempty (spec_list ms t).
Proof. exact type_lists. Qed.
Print Assumptions C08_type_lists.

Theorem C08_type_list_items : forall ms t it,
  In it (spec_list ms t) <->
  exists m, In m ms /\ In (Svc t (iname it)) (msvcs m) /\
            it = It (iname it) (mid m) (mstate m) (resolve ms (mid m)).
Proof. exact type_list_items. Qed.
Print Assumptions C08_type_list_items.

Theorem C08_type_list_length : forall ms t, length (spec_list ms t) = zcount t (types_of ms).
Proof. exact type_list_length. Qed.
Print Assumptions C08_type_list_length.

(* working lists = exactly the services on nodes in working state ... *)
Theorem C08_working_lists : forall ms t, get_work (make_members ms) t = nonempty (spec_work ms t).
Proof. exact working_lists. Qed.
Print Assumptions C08_working_lists.

(* ... i.e. the sublist (same order) of the per-type list whose node state is Working *)
Theorem C08_working_is_filter : forall ms t,
  spec_work ms t = filter (fun it => is_work (istate it)) (spec_list ms t).
Proof. exact working_is_filter. Qed.
Print Assumptions C08_working_is_filter.

(* with distinct node ids every listed item carries its own node's state and host:port *)
Theorem C08_resolves_to_node : forall ms t it,
  NoDup (map mid ms) -> In it (spec_list ms t) ->
  exists m, In m ms /\ inode it = mid m /\ istate it = mstate m /\
            In (Svc t (iname it)) (msvcs m) /\ ipid it = Some (maddr m).
Proof. exact resolves_to_node. Qed.
Print Assumptions C08_resolves_to_node.

(* duplicate node ids in the list: the last record answers (members map and addresses) *)
Theorem C08_members_index : forall ms id,
  aget id (ix_members (make_members ms)) = last_with ms id.
Proof. exact members_index. Qed.
Print Assumptions C08_members_index.

Theorem C08_members_listed : forall ms m,
  In m (get_members (make_members ms)) <-> last_with ms (mid m) = Some m.
Proof. exact members_listed. Qed.
Print Assumptions C08_members_listed.

Theorem C08_last_with_unique : forall ms m,
  NoDup (map mid ms) -> In m ms -> last_with ms (mid m) = Some m.
Proof. exact last_with_unique. Qed.
Print Assumptions C08_last_with_unique.

(* lookup by name: nil iff no listed service has the name; otherwise the first item of that
   name in the list of some type - so with a unique name, THE item (and its node's address,
   by C08_resolves_to_node) *)
Theorem C08_service_admissible : forall ms n,
  admissible_service ms n (get_service (make_members ms) n).
Proof. exact service_admissible. Qed.
Print Assumptions C08_service_admissible.

Theorem C08_service_unique : forall ms n t it,
  unique_name ms n -> In it (spec_list ms t) -> iname it = n ->
  get_service (make_members ms) n = Some it.
Proof. exact service_unique. Qed.
Print Assumptions C08_service_unique.

Theorem C08_work_names : forall ms n,
  In n (get_work_names (make_members ms)) <-> exists t it, In it (spec_work ms t) /\ iname it = n.
Proof. exact work_names. Qed.
Print Assumptions C08_work_names.

(* ... with multiplicity: each working service name as often as it is listed *)
Theorem C08_work_names_count : forall ms n,
  zcount n (get_work_names (make_members ms)) = zcount n (spec_work_names ms).
Proof. exact work_names_counts. Qed.
Print Assumptions C08_work_names_count.

(* the package-level getters of node/app/utils.go: first items, random picks, PIDs by name *)
Theorem C08_first_service : forall ms t,
  get_first (make_members ms) t = first_of (spec_list ms t) /\
  get_first_work (make_members ms) t = first_of (spec_work ms t).
Proof. exact first_service. Qed.
Print Assumptions C08_first_service.

(* whatever index the random generator returns, a pick is an item of the (working) list ... *)
Theorem C08_pick_member : forall ms t i it,
  (pick (make_members ms) t i = Some it -> In it (spec_list ms t)) /\
  (pick_work (make_members ms) t i = Some it -> In it (spec_work ms t)).
Proof. exact pick_member. Qed.
Print Assumptions C08_pick_member.

(* ... and nil exactly when there is no such service *)
Theorem C08_pick_total : forall ms t,
  (spec_list ms t <> [] -> exists it, pick (make_members ms) t 0 = Some it) /\
  (spec_list ms t = [] -> forall i, pick (make_members ms) t i = None).
Proof. exact pick_total. Qed.
Print Assumptions C08_pick_total.

Theorem C08_service_pid_unique : forall ms n t it,
  unique_name ms n -> In it (spec_list ms t) -> iname it = n ->
  get_pid (make_members ms) n = ipid it /\
  get_work_pid (make_members ms) n = (if is_work (istate it) then ipid it else None).
Proof. exact service_pid_unique. Qed.
Print Assumptions C08_service_pid_unique.

(* the executable laws used by the monitor for these getters hold of the model for every list *)
Theorem C08_ext_laws : forall ms, ext_ok_spec ms (ext_of (make_members ms)) = true.
Proof. exact ext_spec_sound. Qed.
Print Assumptions C08_ext_laws.

(* ------------------------------------------------------------------ part C: readers *)

(* For ALL sequences of published lists, ALL reader programs and ALL interleavings of the
   updater's steps (build, four reference stores) with the readers' loads: every answer to a
   query that loads one reference equals that query evaluated on make_members of ONE view -
   the initial empty directory or one published list - and that view is the last completely
   published one or the one being published at the time of the load. *)
Theorem C08_reader_atomic : forall pubs progs sched i r e,
  nth_error (rds (run_sched (init_sys pubs progs) sched)) i = Some r ->
  In e (r_log r) ->
  length (reads (e_query e)) = 1%nat ->
  exists k, (e_lo e <= k <= e_hi e)%nat /\ (e_hi e <= length pubs)%nat /\
            e_answer e = answer_of (e_query e) (view pubs k).
Proof. exact reader_atomic. Qed.
Print Assumptions C08_reader_atomic.

(* per getter of ClusterServices, in terms of the published list itself *)
Theorem C08_atomic_GetServiceList : forall pubs progs sched i r e,
  nth_error (rds (run_sched (init_sys pubs progs) sched)) i = Some r -> In e (r_log r) ->
  forall t, e_query e = QList t ->
  exists k, (e_lo e <= k <= e_hi e)%nat /\ (e_hi e <= length pubs)%nat /\
            e_answer e = AItems (nonempty (spec_list (view_list pubs k) t)).
Proof. exact atomic_list. Qed.
Print Assumptions C08_atomic_GetServiceList.

Theorem C08_atomic_GetWorkServiceList : forall pubs progs sched i r e,
  nth_error (rds (run_sched (init_sys pubs progs) sched)) i = Some r -> In e (r_log r) ->
  forall t, e_query e = QWork t ->
  exists k, (e_lo e <= k <= e_hi e)%nat /\ (e_hi e <= length pubs)%nat /\
            e_answer e = AItems (nonempty (spec_work (view_list pubs k) t)).
Proof. exact atomic_work. Qed.
Print Assumptions C08_atomic_GetWorkServiceList.

Theorem C08_atomic_GetService : forall pubs progs sched i r e,
  nth_error (rds (run_sched (init_sys pubs progs) sched)) i = Some r -> In e (r_log r) ->
  forall n, e_query e = QService n ->
  exists k a, (e_lo e <= k <= e_hi e)%nat /\ (e_hi e <= length pubs)%nat /\
              e_answer e = AItem a /\ admissible_service (view_list pubs k) n a.
Proof. exact atomic_service. Qed.
Print Assumptions C08_atomic_GetService.

Theorem C08_atomic_GetWorkServiceNames : forall pubs progs sched i r e,
  nth_error (rds (run_sched (init_sys pubs progs) sched)) i = Some r -> In e (r_log r) ->
  e_query e = QWorkNames ->
  exists k l, (e_lo e <= k <= e_hi e)%nat /\ (e_hi e <= length pubs)%nat /\
              e_answer e = ANames l /\
              forall n, In n l <-> exists t it, In it (spec_work (view_list pubs k) t) /\ iname it = n.
Proof. exact atomic_work_names. Qed.
Print Assumptions C08_atomic_GetWorkServiceNames.

Theorem C08_atomic_GetMembers : forall pubs progs sched i r e,
  nth_error (rds (run_sched (init_sys pubs progs) sched)) i = Some r -> In e (r_log r) ->
  e_query e = QMembers ->
  exists k l, (e_lo e <= k <= e_hi e)%nat /\ (e_hi e <= length pubs)%nat /\
              e_answer e = AMembers l /\
              forall m, In m l <-> last_with (view_list pubs k) (mid m) = Some m.
Proof. exact atomic_members. Qed.
Print Assumptions C08_atomic_GetMembers.

(* ------------------------------------------------------------------ the executable checks *)

(* The monitor run on implementation traces (Spec.v: implied set, self present, plain index
   specifications, admissible name lookups) accepts the model's own run on EVERY history, also
   non-conforming ones: a monitor failure on an implementation trace is a deviation from the
   proven model, never an over-strict check. *)
Theorem C08_monitor_sound : forall ops, monitor (ops, run ops) = true.
Proof. exact monitor_sound. Qed.
Print Assumptions C08_monitor_sound.

(* the same for the model/implementation comparison *)
Theorem C08_agree_sound : forall ops, agree (ops, run ops) = true.
Proof. exact agree_sound. Qed.
Print Assumptions C08_agree_sound.

(* ------------------------------------------------------------------ examples *)
Definition xself := Nd 0 true 1 10 [Svc 1 1].
Definition xn1 := Nd 1 true 1 11 [Svc 1 2; Svc 2 3; SBad 0].
Definition xn1' := Nd 1 true 2 11 [Svc 1 2; Svc 2 3; SBad 0].
Definition xn2 := Nd 2 true 2 12 [Svc 1 4; Svc 2 3].

(* non-vacuity of part A: listing, registration, re-registration with a changed state, events
   about the node itself, duplicate, deletion of an unknown node, a junk event, empty batch *)
Example C08_example_fold :
  let bs := [[EPut 1 xn1; EDel 0; EPut 0 xself]; []; [EDel 7; EJunk 3 0];
             [EPut 1 xn1'; EPut 1 xn1'; EDel 2]] in
  Forall conform_ev (concat bs) /\
  publish (fold_watch xself [xn2] bs) = [member_of xself; member_of xn1'] /\
  length (publications xself (init_members xself [xn2]) bs) = 3%nat.
Proof.
  vm_compute. split; [|split; reflexivity].
  repeat constructor.
Qed.

(* F9 (code before hooks/C08-fix-delete-cancels-pending-put.patch): one response
   [PUT n; DELETE n] for a node that was unknown leaves n in the directory; the same two events
   in two responses do not.  The repaired fold agrees with the implied set on both. *)
Example C08_F9_old_code_refuted :
  publish (fold_watch_old xself [] [[EPut 1 xn1; EDel 1]]) = [member_of xself; member_of xn1] /\
  publish (fold_watch_old xself [] [[EPut 1 xn1]; [EDel 1]]) = [member_of xself] /\
  publish (implied xself [] [EPut 1 xn1; EDel 1]) = [member_of xself] /\
  publish (fold_watch xself [] [[EPut 1 xn1; EDel 1]]) = [member_of xself].
Proof. vm_compute. repeat split; reflexivity. Qed.

(* second defect (code before hooks/C08-fix-working-list-pid.patch): items of the working
   lists never received an address, so GetFirstWorkService / RandGetWorkService returned nil *)
Example C08_working_pid_old_code :
  get_work (make_members_old [member_of xself]) 1 = Some [It 1 0 1 None] /\
  get_work (make_members [member_of xself]) 1 = Some [It 1 0 1 (Some 10)].
Proof. vm_compute. split; reflexivity. Qed.

(* non-vacuity of part B: two types, a duplicate name across types (3), a malformed name, a
   node that is not working *)
Example C08_example_indexes :
  let ix := make_members [member_of xself; member_of xn1; member_of xn2] in
  get_list ix 2 = Some [It 3 1 1 (Some 11); It 3 2 2 (Some 12)] /\
  get_work ix 2 = Some [It 3 1 1 (Some 11)] /\
  get_work ix 1 = Some [It 1 0 1 (Some 10); It 2 1 1 (Some 11)] /\
  get_service ix 4 = Some (It 4 2 2 (Some 12)) /\
  get_service ix 3 = Some (It 3 1 1 (Some 11)) /\
  get_list ix 3 = None.
Proof. vm_compute. repeat split; reflexivity. Qed.

(* non-vacuity of part C: a reader whose load falls between the updater's stores gets the view
   that is being published (lo = 0 complete, hi = 1 started, answer from view 1) *)
Example C08_example_reader :
  let pubs := [[member_of xself]; [member_of xself; member_of xn1]] in
  let s := run_sched (init_sys pubs [[QList 1; QService 2]]) [0; 0; 0; 1; 1; 0; 0; 0; 0; 1; 0; 0; 0; 1]%nat in
  map (fun e => (e_answer e, e_lo e, e_hi e)) (r_log (nth 0 (rds s) (R [] None []))) =
  [(AItems (Some [It 1 0 1 (Some 10)]), 0%nat, 1%nat);
   (AItem None, 1%nat, 2%nat)].
Proof. vm_compute. reflexivity. Qed.

(* the limit of the theorem: a caller-level sequence that loads TWO references (first working
   service of a type, then its entry in the name map) can combine two views - here it obtains
   the record of service 1 with state 2, which is neither what view 1 answers (state 1), nor
   view 2 (service 5), nor the empty directory (nil).  No getter of ClusterServices does this;
   callers that chain two getters can observe it. *)
Example C08_composite_can_mix :
  let a := [Mb 1 1 11 [Svc 1 1]] in
  let b := [Mb 1 2 11 [Svc 1 1]; Mb 2 1 12 [Svc 1 5]] in
  let pubs := [a; b] in
  let q := QWorkThenResolve 1 in
  let s := run_sched (init_sys pubs [[q]])
                     ([0; 0; 0; 0; 0; 0] ++ [1; 1] ++ [0; 0; 0; 0; 0; 0] ++ [1])%nat in
  map e_answer (r_log (nth 0 (rds s) (R [] None []))) = [AItem (Some (It 1 1 2 (Some 11)))] /\
  answer_of q (view pubs 0) = AItem None /\
  answer_of q (view pubs 1) = AItem (Some (It 1 1 1 (Some 11))) /\
  answer_of q (view pubs 2) = AItem (Some (It 5 2 1 (Some 12))).
Proof. vm_compute. repeat split; reflexivity. Qed.

(* non-vacuity of the self-state theorems: the node retires (state 2), its lease is revoked and
   it registers again - the watch delivers DELETE self; PUT self(state 2) - then the stream ends
   and a new watch delivers the expiry of node 1 *)
Example C08_example_self_state :
  let h := [HBatch [EPut 1 xn1]; HSelf 2; HBatch [EDel 0; EPut 0 (with_state xself 2)]; HRewatch;
            HBatch [EDel 1]; HSelf 3] in
  Forall conform_ev (events_of h) /\
  publish (snd (fold_hist xself [xn2; with_state xself 5] h)) = [Mb 0 3 10 [Svc 1 1]; member_of xn2] /\
  last_state_from (nstate xself) h = 3.
Proof. vm_compute. split; [|split; reflexivity]. repeat constructor. Qed.

(* non-vacuity of part A': node 1 registers (state 1), the listing is evaluated, node 1 re-registers with
   state 2 BEFORE the watch exists, the listing arrives, the watch is registered and delivers; the stream
   fails, node 2 registers and node 1 expires, the history is compacted, the new watch is refused, the
   provider lists again and watches on; Shutdown with an event in flight *)
Definition xacts : list act :=
  [AWatch; AMut (MPut xn1); AGetEval; AMut (MPut xn1'); ADeliver 9; AGetResp; AWatch; ADeliver 9;
   AWatchFail 1; AMut (MPut xn2); AMut (MDel 1); ACompact; AMut (MPut xn1); AWatch; AGetEval; AGetResp; AWatch;
   AMut (MDel 2); AShutdown; ADeliver 1].

Example C08_example_boot :
  let '(s, xs) := boot_run true xself true (boot0 []) xacts in
  Forall conform_mut (b_log s) /\ b_pc s = PRun /\ b_seen s = 6%nat /\ b_watch s = WOpen 6 /\
  map (fun x => match x with XStart _ _ ms _ | XPub ms _ => Some ms | _ => None end) xs =
  [None; None; None; None; None; Some [member_of xself; member_of xn1]; None;
   Some [member_of xself; member_of xn1']; None; None; None; None; None; None; None;
   Some [member_of xself; member_of xn1; member_of xn2]; None; None; None; Some [member_of xself; member_of xn1]] /\
  nth 6 xs XNone = XWReg 3 /\ nth 13 xs XNone = XWComp /\ nth 16 xs XNone = XWReg 7 /\
  b_dir s = publish (membership true xself (b_log s) 6) /\
  boot_monitor true xself bmon0 xacts xs = true.
Proof. vm_compute. repeat split; try reflexivity. repeat constructor. Qed.

(* a client (StartClient) on the same schedule: all other nodes, never itself *)
Example C08_example_boot_client :
  let s := fst (boot_run true xself false (boot0 []) xacts) in
  b_dir s = [member_of xn1] /\ adel 0 (b_mem s) = membership false xself (b_log s) 6.
Proof. vm_compute. split; reflexivity. Qed.

(* F23 (code before hooks/C08-fix-watch-from-listing-revision.patch, [fixed = false]: Watch without a start
   revision): what node 1 does between the evaluation of the listing and the registration of the watch
   is never delivered - the watch is open, has nothing pending, and the directory still shows state 1.
   The property monitor rejects that trace (the watch starts after a position the provider never saw);
   the repaired provider asks for revision 3 and ends with state 2. *)
Example C08_F23_old_code_refuted :
  let acts := [AMut (MPut xn1); AGetEval; AMut (MPut xn1'); AGetResp; AWatch; ADeliver 9] in
  let '(old, xs_old) := boot_run false xself true (boot0 []) acts in
  let '(new, xs_new) := boot_run true xself true (boot0 []) acts in
  b_watch old = WOpen 2 /\ length (b_log old) = 2%nat /\
  b_dir old = [member_of xself; member_of xn1] /\
  publish (membership true xself (b_log old) 2) = [member_of xself; member_of xn1'] /\
  boot_monitor true xself bmon0 acts xs_old = false /\
  nth 4 xs_old XNone = XWReg 4 /\ nth 4 xs_new XNone = XWReg 3 /\
  b_dir new = [member_of xself; member_of xn1'] /\
  boot_monitor true xself bmon0 acts xs_new = true.
Proof. vm_compute. repeat split; reflexivity. Qed.

(* non-vacuity of the driver: a start with a stale record of the node itself in the listing, a
   failing start (undecodable listing entry), shutdown *)
Example C08_example_run :
  map (fun o => match o with BStart _ _ ms _ | BPub ms _ => Some ms | _ => None end)
      (run [OStart xself [LNode xn2; LNode (with_state xself 5)]; OSelfState 2; OBatch [EDel 2];
            OShutdown; OBatch [EDel 1]; OStart xself [LJunk]; OSelfCluster 3 (-5) [(1, 2); (2, 0)]])
  = [Some [member_of xself; member_of xn2]; None; Some [Mb 0 2 10 [Svc 1 1]]; None; None; None;
     Some [Mb 3 1 (-1) [Svc 2 1]]].
Proof. vm_compute. reflexivity. Qed.
