(* C08 - the property, as functions of the event history / of the published member list alone
   (no changes map, no index construction), and the boolean monitors evaluated on
   implementation traces.  No proofs in this file. *)
From Cell2V Require Import Common.Tac Common.ListX Common.AList C08.Model.

(* ------------------------------------------------------------------ part A: implied set *)
(* Conformance of the discovery data (what every registering node guarantees): the record
   stored under key .../k is the record of node k, and a registered record is alive
   (NewNode sets Alive; only the provider's private dead clones clear it). *)
Definition conform_ev (e : ev) : Prop :=
  match e with EPut k n => nid n = k /\ nalive n = true | _ => True end.

Definition conform_evb (e : ev) : bool :=
  match e with EPut k n => Z.eqb (nid n) k && nalive n | _ => true end.

(* plain per-event semantics of the key space: PUT stores, DELETE removes *)
Definition sstep (m : alist node) (e : ev) : alist node :=
  match e with
  | EPut k n => aset k n m
  | EDel k => adel k m
  | EJunk _ _ => m
  end.

Definition listed (listing : list node) : alist node :=
  fold_left (fun m n => aset (nid n) n m) listing [].

(* the member set implied by the initial listing followed by the events, plus the node
   itself (its own record, whatever the events say about it) *)
Definition implied (self : node) (listing : list node) (evs : list ev) : alist node :=
  aset (nid self) self (fold_left sstep evs (listed listing)).

(* what must be published while a batched stream is folded: after every non-empty response,
   the set implied by all events delivered so far *)
Fixpoint implied_pubs (self : node) (listing : list node) (seen : list ev) (bs : list (list ev))
  : list (alist node) :=
  match bs with
  | [] => []
  | b :: r =>
      if is_nil b then implied_pubs self listing seen r
      else implied self listing (seen ++ b) :: implied_pubs self listing (seen ++ b) r
  end.

(* histories with the node's own state changes: the events of the history in delivery order, and
   the node's record with the state it set last *)
Definition events_of (h : list hop) : list ev :=
  flat_map (fun x => match x with HBatch b => b | _ => [] end) h.

Definition current_self (self : node) (h : list hop) : node :=
  fold_left (fun n x => match x with HSelf s => with_state n s | _ => n end) h self.

(* ------------------------------------------------------------------ part B: directory *)
(* the record that answers for node [id]: the last one in the list *)
Definition last_with (ms : list member) (id : Z) : option member :=
  fold_left (fun acc m => if Z.eqb (mid m) id then Some m else acc) ms None.

Definition resolve (ms : list member) (id : Z) : option Z :=
  match last_with ms id with Some m => Some (maddr m) | None => None end.

(* the services of type t that member m lists, in the order it lists them *)
Definition raw_items (t : Z) (m : member) : list item :=
  flat_map (fun s => match s with
                     | Svc t' n => if Z.eqb t' t then [It n (mid m) (mstate m) None] else []
                     | SBad _ => []
                     end) (msvcs m).

Definition resolved (ms : list member) (it : item) : item :=
  It (iname it) (inode it) (istate it) (resolve ms (inode it)).

Definition spec_list (ms : list member) (t : Z) : list item :=
  map (resolved ms) (flat_map (raw_items t) ms).

Definition spec_work (ms : list member) (t : Z) : list item :=
  map (resolved ms) (flat_map (raw_items t) (filter (fun m => is_work (mstate m)) ms)).

(* a Go map lookup that finds nothing answers nil *)
Definition nonempty {A} (l : list A) : option (list A) :=
  match l with [] => None | _ => Some l end.

Definition svc_types (m : member) : list Z :=
  flat_map (fun s => match s with Svc t _ => [t] | SBad _ => [] end) (msvcs m).
Definition types_of (ms : list member) : list Z := flat_map svc_types ms.

Definition named (n : Z) (it : item) : bool := Z.eqb (iname it) n.

(* GetService(n): nil iff no listed service has that name; otherwise the first item of that
   name in the list of SOME type (which type is decided by Go's map iteration order; when the
   name is unique there is only one candidate) *)
Definition admissible_service (ms : list member) (n : Z) (a : option item) : Prop :=
  match a with
  | None => forall t it, In it (spec_list ms t) -> iname it <> n
  | Some it => exists t, find (named n) (spec_list ms t) = Some it
  end.

Definition unique_name (ms : list member) (n : Z) : Prop :=
  forall t1 t2 i1 i2, In i1 (spec_list ms t1) -> In i2 (spec_list ms t2) ->
                      iname i1 = n -> iname i2 = n -> i1 = i2 /\ t1 = t2.

(* ------------------------------------------------------------------ boolean equalities *)
Definition svc_eqb (a b : svc) : bool :=
  match a, b with
  | Svc t n, Svc t' n' => Z.eqb t t' && Z.eqb n n'
  | SBad v, SBad v' => Z.eqb v v'
  | _, _ => false
  end.

Definition member_eqb (a b : member) : bool :=
  Z.eqb (mid a) (mid b) && Z.eqb (mstate a) (mstate b) && Z.eqb (maddr a) (maddr b)
  && list_eqb svc_eqb (msvcs a) (msvcs b).

Definition item_eqb (a b : item) : bool :=
  Z.eqb (iname a) (iname b) && Z.eqb (inode a) (inode b) && Z.eqb (istate a) (istate b)
  && option_eqb Z.eqb (ipid a) (ipid b).

Fixpoint count_b {A} (eqb : A -> A -> bool) (x : A) (l : list A) : nat :=
  match l with
  | [] => O
  | y :: r => ((if eqb x y then 1 else 0) + count_b eqb x r)%nat
  end.

(* same multiset: every element of either list occurs equally often in both *)
Definition perm_eqb {A} (eqb : A -> A -> bool) (a b : list A) : bool :=
  forallb (fun x => Nat.eqb (count_b eqb x a) (count_b eqb x b)) a
  && forallb (fun x => Nat.eqb (count_b eqb x a) (count_b eqb x b)) b.

Definition items_opt_eqb := option_eqb (list_eqb item_eqb).

(* ------------------------------------------------------------------ monitors *)
Definition admissible_b (ms : list member) (n : Z) (a : option item) : bool :=
  match a with
  | None => forallb (fun t => negb (existsb (named n) (spec_list ms t))) (types_of ms)
  | Some it => existsb (fun t => option_eqb item_eqb (find (named n) (spec_list ms t)) (Some it))
                       (types_of ms)
  end.

Definition spec_work_names (ms : list member) : list Z :=
  flat_map (fun m => if is_work (mstate m)
                     then flat_map (fun s => match s with Svc _ n => [n] | SBad _ => [] end) (msvcs m)
                     else []) ms.

(* the answers of the query battery, judged against the member list they were built from *)
Definition index_ok (ms : list member) (q : answers) : bool :=
  match q with
  | Ans types work names worknames members =>
      list_eqb (pair_eqb Z.eqb items_opt_eqb) types
               (map (fun t => (t, nonempty (spec_list ms t))) probe_types)
      && list_eqb (pair_eqb Z.eqb items_opt_eqb) work
                  (map (fun t => (t, nonempty (spec_work ms t))) probe_types)
      && zlist_eqb (map fst names) probe_names
      && forallb (fun na => admissible_b ms (fst na) (snd na)) names
      && perm_eqb Z.eqb worknames (spec_work_names ms)
      && nodupb (map mid members)
      && forallb (fun m => option_eqb member_eqb (last_with ms (mid m)) (Some m)) members
      && forallb (fun m => zmem (mid m) (map mid members)) ms
  end.

(* ------------------------------------------------------------------ the other getters *)
(* Laws of the package-level getters of node/app/utils.go, stated over the per-type lists [L],
   the working lists [W] and the service types [tys] of the directory.  Random picks are judged
   by membership, lookups by name by membership in the admissible set. *)
Section ExtLaws.
  Variables (tys : list Z) (L W : Z -> list item).

  (* candidates GetService(n) may answer: the first item of that name in the list of each type *)
  Definition cands (n : Z) : list item :=
    flat_map (fun t => match find (named n) (L t) with Some it => [it] | None => [] end) tys.

  Definition opt_z_eqb := option_eqb Z.eqb.
  Definition opt_item_eqb := option_eqb item_eqb.

  Definition pick_ok (l : list item) (a : option item) : bool :=
    match a with None => is_nil l | Some it => existsb (item_eqb it) l end.
  Definition pick_pid_ok (l : list item) (p : option Z) : bool :=
    match l with [] => opt_z_eqb p None | _ => existsb (fun it => opt_z_eqb (ipid it) p) l end.
  Definition pick_name_ok (l : list item) (p : option Z) : bool :=
    match p with None => is_nil l | Some n => existsb (named n) l end.
  Definition lookup_ok (f : option item -> option Z) (n : Z) (p : option Z) : bool :=
    match cands n with
    | [] => opt_z_eqb p None
    | c => existsb (fun it => opt_z_eqb (f (Some it)) p) c
    end.

  Definition qt_ok (x : qtype) : bool :=
    match x with
    | QT t fi fw fp fwp ri rw rp rwp rn rwn ls lw =>
        opt_item_eqb fi (first_of (L t)) && opt_item_eqb fw (first_of (W t))
        && opt_z_eqb fp (pid_of (first_of (L t))) && opt_z_eqb fwp (pid_of (first_of (W t)))
        && pick_ok (L t) ri && pick_ok (W t) rw
        && pick_pid_ok (L t) rp && pick_pid_ok (W t) rwp
        && pick_name_ok (L t) rn && pick_name_ok (W t) rwn
        && opt_z_eqb ls (len_opt (L t)) && opt_z_eqb lw (len_opt (W t))
    end.

  Definition qn_ok (x : qname) : bool :=
    match x with
    | QN n pid wpid apid =>
        lookup_ok pid_of n pid && lookup_ok work_pid_of n wpid && lookup_ok pid_of n apid
    end.

  Definition ext_ok (e : ext) : bool :=
    match e with
    | Ext ts ns =>
        zlist_eqb (map (fun x => match x with QT t _ _ _ _ _ _ _ _ _ _ _ _ => t end) ts) probe_types
        && forallb qt_ok ts
        && zlist_eqb (map (fun x => match x with QN n _ _ _ => n end) ns) probe_names
        && forallb qn_ok ns
    end.
End ExtLaws.

Definition ext_ok_spec (ms : list member) (e : ext) : bool :=
  ext_ok (types_of ms) (spec_list ms) (spec_work ms) e.

(* ------------------------------------------------------------------ the trace monitor *)
Definition node_eqb (a b : node) : bool :=
  Z.eqb (nid a) (nid b) && Bool.eqb (nalive a) (nalive b) && Z.eqb (nstate a) (nstate b)
  && Z.eqb (naddr a) (naddr b) && list_eqb svc_eqb (nsvcs a) (nsvcs b).

(* one publication, judged against the history that led to it: [self] is the node's record with
   the state it set last *)
Definition pub_ok (self : node) (listing : list node) (seen : list ev)
           (ms : list member) (q : answers) : bool :=
  (if forallb conform_evb seen
   then perm_eqb member_eqb ms (publish (implied self listing seen))
        && existsb (member_eqb (member_of self)) ms
   else true)
  && index_ok ms q.

(* what the node registers about itself must conform to the guard of the theorems: under its own
   key, its own current record, alive *)
Definition reg_ok (self : node) (k : Z) (n : node) : bool :=
  Z.eqb k (nid self) && node_eqb n self && nalive n.


(* ------------------------------------------------------------------ the scripted life *)
(* The property for a life on the scripted key space, stated WITHOUT reference to the order in which
   an implementation issues its requests: whatever it has been shown - a listing evaluated at
   position r, watch events up to position r - every list it publishes is the membership at the
   HIGHEST position it has been shown so far (never an older one again), with the node itself in
   it; and a watch it opens loses nothing: it starts no later than right after that position.
   "Position r" = the key space after its first r mutations (revision r+1). *)
Definition conform_mutb (mu : mut) : bool := match mu with MPut n => nalive n | MDel _ => true end.
Definition conform_mut (mu : mut) : Prop := match mu with MPut n => nalive n = true | MDel _ => True end.

(* member mode: the key space plus the node's own record; client mode: the node is not a member, the
   statement is about all OTHER nodes (whatever sits under the client's own id is left out on both
   sides) *)
Definition membership (mode : bool) (self : node) (log : list mut) (r : nat) : alist node :=
  if mode then aset (nid self) self (snap log r) else adel (nid self) (snap log r).

Definition others (self : node) (ms : list member) : list member :=
  filter (fun m => negb (Z.eqb (mid m) (nid self))) ms.

Definition boot_pub_ok (mode : bool) (self : node) (log : list mut) (r : nat)
           (ms : list member) (q : answers) : bool :=
  (if forallb conform_mutb (firstn r log)
   then if mode
        then perm_eqb member_eqb ms (publish (membership true self log r))
             && existsb (member_eqb (member_of self)) ms
        else perm_eqb member_eqb (others self ms) (publish (membership false self log r))
   else true)
  && index_ok ms q.

Record bmon := BM {
  bm_log : list mut;
  bm_compact : nat;
  bm_get : option nat;      (* a listing evaluated at this position is in flight *)
  bm_watch : option nat;    (* a watch is registered; next mutation it delivers *)
  bm_seen : option nat      (* highest position shown to the provider (None: nothing yet) *)
}.

Definition bmon0 : bmon := BM [] 0 None None None.

Definition seen_max (o : option nat) (r : nat) : nat := match o with Some s => Nat.max s r | None => r end.

(* one action and what the implementation showed for it; None = the property is violated *)
Definition bmon_step (mode : bool) (self : node) (m : bmon) (a : act) (x : bobs) : option bmon :=
  match a, x with
  | AMut mu, XNone => Some (BM (bm_log m ++ [mu]) (bm_compact m) (bm_get m) (bm_watch m) (bm_seen m))
  | AGetEval, XAck => Some (BM (bm_log m) (bm_compact m) (Some (length (bm_log m))) (bm_watch m) (bm_seen m))
  | AGetEval, XNone => Some m
  | AGetResp, XStart regs wired ms q =>
      match bm_get m with
      | Some r =>
          let r' := seen_max (bm_seen m) r in
          if (if mode then negb (is_nil regs) && forallb (fun kn => reg_ok self (fst kn) (snd kn)) regs
              else is_nil regs)
             && wired && boot_pub_ok mode self (bm_log m) r' ms q
          then Some (BM (bm_log m) (bm_compact m) None (bm_watch m) (Some r'))
          else None
      | None => None
      end
  | AGetResp, XPub ms q =>
      match bm_get m with
      | Some r =>
          let r' := seen_max (bm_seen m) r in
          if boot_pub_ok mode self (bm_log m) r' ms q
          then Some (BM (bm_log m) (bm_compact m) None (bm_watch m) (Some r'))
          else None
      | None => None
      end
  | AGetResp, XNone => match bm_get m with None => Some m | Some _ => None end
  | AGetFail, (XFail | XAck) => Some (BM (bm_log m) (bm_compact m) None (bm_watch m) (bm_seen m))
  | AGetFail, XNone => Some m
  | AWatch, XWReg start =>
      let i := Z.to_nat (start - 2) in
      (* it exists (not in the future), and nothing is lost: it starts no later than right after what
         the provider has been shown *)
      if Z.leb 2 start && Nat.leb i (length (bm_log m))
         && match bm_seen m with Some sn => Nat.leb i sn | None => true end
      then Some (BM (bm_log m) (bm_compact m) (bm_get m) (Some i) (bm_seen m))
      else None
  | AWatch, XWComp => Some (BM (bm_log m) (bm_compact m) (bm_get m) None (bm_seen m))
  | AWatch, XNone => Some m
  | ADeliver n, XPub ms q =>
      match bm_watch m with
      | Some i =>
          let k := Nat.min (Z.to_nat n) (length (bm_log m) - i) in
          let r' := seen_max (bm_seen m) (i + k) in
          if negb (Nat.eqb k 0) && boot_pub_ok mode self (bm_log m) r' ms q
          then Some (BM (bm_log m) (bm_compact m) (bm_get m) (Some (i + k)%nat) (Some r'))
          else None
      | None => None
      end
  | ADeliver n, XNone =>
      match bm_watch m with
      | Some i => if Nat.eqb (Nat.min (Z.to_nat n) (length (bm_log m) - i)) 0 then Some m else None
      | None => Some m
      end
  | AWatchFail _, XWatch _ _ =>
      match bm_watch m with
      | Some _ => Some (BM (bm_log m) (bm_compact m) (bm_get m) None (bm_seen m))
      | None => None
      end
  | AWatchFail _, XNone => match bm_watch m with None => Some m | Some _ => None end
  | ACompact, XNone => Some (BM (bm_log m) (length (bm_log m)) (bm_get m) (bm_watch m) (bm_seen m))
  | AShutdown, XDown k cancelled => if Z.eqb k (nid self) && cancelled then Some m else None
  | AShutdown, XNone => Some m
  | _, _ => None
  end.

Fixpoint boot_monitor (mode : bool) (self : node) (m : bmon) (acts : list act) (xs : list bobs) : bool :=
  match acts, xs with
  | [], [] => true
  | a :: ar, x :: xr =>
      match bmon_step mode self m a x with
      | Some m' => boot_monitor mode self m' ar xr
      | None => false
      end
  | _, _ => false
  end.

(* the list last handed to the Cluster during a scripted life *)
Definition boot_last_pub (dir : list member) (xs : list bobs) : list member :=
  fold_left (fun d x => match x with XStart _ _ ms _ | XPub ms _ => ms | _ => d end) xs dir.

Record mprov := MP { m_self : node; m_listing : list node; m_seen : list ev; m_watches : Z; m_err : bool }.

(* monitor state: the running provider (if any) and the member list last handed to the Cluster *)
Definition mstate_t := (option mprov * list member)%type.

Definition is_none (o : obs) : bool := match o with BNone => true | _ => false end.

Fixpoint monitor_from (st : mstate_t) (ops : list op) (bs : list obs) : bool :=
  match ops, bs with
  | [], [] => true
  | o :: r, b :: br =>
      let '(mp, dir) := st in
      match o with
      | OStart self listing =>
          let self' := mk_self self in
          match (if Z.ltb (naddr self) (-1) then None else listing_nodes listing), b with
          | None, BFail => monitor_from (None, dir) r br
          | Some nodes, BStart regs wired ms q =>
              negb (is_nil regs) && forallb (fun kn => reg_ok self' (fst kn) (snd kn)) regs && wired
              && pub_ok self' nodes [] ms q
              && monitor_from (Some (MP self' nodes [] 1 false), ms) r br
          | _, _ => false
          end
      | OBatch ev =>
          match mp with
          | None => is_none b && monitor_from st r br
          | Some p =>
              if is_nil ev then is_none b && monitor_from st r br
              else match b with
                   | BPub ms q =>
                       pub_ok (m_self p) (m_listing p) (m_seen p ++ ev) ms q
                       && monitor_from (Some (MP (m_self p) (m_listing p) (m_seen p ++ ev)
                                                 (m_watches p) (m_err p)), ms) r br
                   | _ => false
                   end
          end
      | OSelfState s =>
          match mp, b with
          | None, BNone => monitor_from st r br
          | Some p, BReg k n =>
              let self' := with_state (m_self p) s in
              reg_ok self' k n
              && monitor_from (Some (MP self' (m_listing p) (m_seen p) (m_watches p) (m_err p)), dir) r br
          | _, _ => false
          end
      | OLeaseLost _ =>
          match mp, b with
          | None, BNone => monitor_from st r br
          | Some p, BReg k n => reg_ok (m_self p) k n && monitor_from st r br
          | _, _ => false
          end
      | ORewatch v =>
          match mp, b with
          | None, BNone => monitor_from st r br
          | Some p, BWatch n healthy =>
              let e := m_err p || negb (Z.eqb v 0) in
              Z.eqb n (m_watches p + 1) && Bool.eqb healthy (negb e)
              && monitor_from (Some (MP (m_self p) (m_listing p) (m_seen p) (m_watches p + 1) e), dir) r br
          | _, _ => false
          end
      | OShutdown =>
          match mp, b with
          | None, BNone => monitor_from st r br
          | Some p, BDown k cancelled =>
              Z.eqb k (nid (m_self p)) && cancelled && monitor_from (None, dir) r br
          | _, _ => false
          end
      | OQuery =>
          match b with
          | BQuery e => ext_ok_spec dir e && monitor_from st r br
          | _ => false
          end
      | ONode n =>
          match b with
          | BNode n' ok => node_eqb n' n && ok && monitor_from st r br
          | _ => false
          end
      | OSelfCluster id addr svcs =>
          match b with
          | BPub ms q =>
              list_eqb member_eqb ms [self_cluster_member id addr svcs] && index_ok ms q
              && monitor_from (mp, ms) r br
          | _ => false
          end
      | OStress _ _ =>
          match b with
          | BStress ok => ok && monitor_from st r br
          | _ => false
          end
      | OBoot self mode acts =>
          match Z.ltb (naddr self) (-1), b with
          | true, BFail => monitor_from (None, dir) r br
          | false, BBoot xs =>
              boot_monitor mode (mk_self self) bmon0 acts xs
              && monitor_from (None, boot_last_pub dir xs) r br
          | _, _ => false
          end
      end
  | _, _ => false
  end.
