(* C08 - the property, as functions of the event history / of the published member list alone
   (no changes map, no index construction), and the boolean monitors evaluated on
   implementation traces.  No proofs in this file. *)
From Cell2V Require Import Common.Tac Common.ListX Common.AList C08.Model.

(* ------------------------------------------------------------------ part A: implied set *)
(* Conformance of the discovery data (what every registering node guarantees): the record
   stored under key .../k is the record of node k, and a registered record is alive
   (NewNode sets Alive; only the provider's private dead clones clear it). *)
Definition conform_ev (e : ev) : Prop :=
  match e with EPut k n => nid n = k /\ nalive n = true | _ => True end.

Definition conform_evb (e : ev) : bool :=
  match e with EPut k n => Z.eqb (nid n) k && nalive n | _ => true end.

(* plain per-event semantics of the key space: PUT stores, DELETE removes *)
Definition sstep (m : alist node) (e : ev) : alist node :=
  match e with
  | EPut k n => aset k n m
  | EDel k => adel k m
  | EJunk _ _ => m
  end.

Definition listed (listing : list node) : alist node :=
  fold_left (fun m n => aset (nid n) n m) listing [].

(* the member set implied by the initial listing followed by the events, plus the node
   itself (its own record, whatever the events say about it) *)
Definition implied (self : node) (listing : list node) (evs : list ev) : alist node :=
  aset (nid self) self (fold_left sstep evs (listed listing)).

(* what must be published while a batched stream is folded: after every non-empty response,
   the set implied by all events delivered so far *)
Fixpoint implied_pubs (self : node) (listing : list node) (seen : list ev) (bs : list (list ev))
  : list (alist node) :=
  match bs with
  | [] => []
  | b :: r =>
      if is_nil b then implied_pubs self listing seen r
      else implied self listing (seen ++ b) :: implied_pubs self listing (seen ++ b) r
  end.

(* ------------------------------------------------------------------ part B: directory *)
(* the record that answers for node [id]: the last one in the list *)
Definition last_with (ms : list member) (id : Z) : option member :=
  fold_left (fun acc m => if Z.eqb (mid m) id then Some m else acc) ms None.

Definition resolve (ms : list member) (id : Z) : option Z :=
  match last_with ms id with Some m => Some (maddr m) | None => None end.

(* the services of type t that member m lists, in the order it lists them *)
Definition raw_items (t : Z) (m : member) : list item :=
  flat_map (fun s => match s with
                     | Svc t' n => if Z.eqb t' t then [It n (mid m) (mstate m) None] else []
                     | SBad _ => []
                     end) (msvcs m).

Definition resolved (ms : list member) (it : item) : item :=
  It (iname it) (inode it) (istate it) (resolve ms (inode it)).

Definition spec_list (ms : list member) (t : Z) : list item :=
  map (resolved ms) (flat_map (raw_items t) ms).

Definition spec_work (ms : list member) (t : Z) : list item :=
  map (resolved ms) (flat_map (raw_items t) (filter (fun m => is_work (mstate m)) ms)).

(* a Go map lookup that finds nothing answers nil *)
Definition nonempty {A} (l : list A) : option (list A) :=
  match l with [] => None | _ => Some l end.

Definition svc_types (m : member) : list Z :=
  flat_map (fun s => match s with Svc t _ => [t] | SBad _ => [] end) (msvcs m).
Definition types_of (ms : list member) : list Z := flat_map svc_types ms.

Definition named (n : Z) (it : item) : bool := Z.eqb (iname it) n.

(* GetService(n): nil iff no listed service has that name; otherwise the first item of that
   name in the list of SOME type (which type is decided by Go's map iteration order; when the
   name is unique there is only one candidate) *)
Definition admissible_service (ms : list member) (n : Z) (a : option item) : Prop :=
  match a with
  | None => forall t it, In it (spec_list ms t) -> iname it <> n
  | Some it => exists t, find (named n) (spec_list ms t) = Some it
  end.

Definition unique_name (ms : list member) (n : Z) : Prop :=
  forall t1 t2 i1 i2, In i1 (spec_list ms t1) -> In i2 (spec_list ms t2) ->
                      iname i1 = n -> iname i2 = n -> i1 = i2 /\ t1 = t2.

(* ------------------------------------------------------------------ boolean equalities *)
Definition svc_eqb (a b : svc) : bool :=
  match a, b with
  | Svc t n, Svc t' n' => Z.eqb t t' && Z.eqb n n'
  | SBad v, SBad v' => Z.eqb v v'
  | _, _ => false
  end.

Definition member_eqb (a b : member) : bool :=
  Z.eqb (mid a) (mid b) && Z.eqb (mstate a) (mstate b) && Z.eqb (maddr a) (maddr b)
  && list_eqb svc_eqb (msvcs a) (msvcs b).

Definition item_eqb (a b : item) : bool :=
  Z.eqb (iname a) (iname b) && Z.eqb (inode a) (inode b) && Z.eqb (istate a) (istate b)
  && option_eqb Z.eqb (ipid a) (ipid b).

Fixpoint count_b {A} (eqb : A -> A -> bool) (x : A) (l : list A) : nat :=
  match l with
  | [] => O
  | y :: r => ((if eqb x y then 1 else 0) + count_b eqb x r)%nat
  end.

(* same multiset: every element of either list occurs equally often in both *)
Definition perm_eqb {A} (eqb : A -> A -> bool) (a b : list A) : bool :=
  forallb (fun x => Nat.eqb (count_b eqb x a) (count_b eqb x b)) a
  && forallb (fun x => Nat.eqb (count_b eqb x a) (count_b eqb x b)) b.

Definition items_opt_eqb := option_eqb (list_eqb item_eqb).

(* ------------------------------------------------------------------ monitors *)
Definition admissible_b (ms : list member) (n : Z) (a : option item) : bool :=
  match a with
  | None => forallb (fun t => negb (existsb (named n) (spec_list ms t))) (types_of ms)
  | Some it => existsb (fun t => option_eqb item_eqb (find (named n) (spec_list ms t)) (Some it))
                       (types_of ms)
  end.

Definition spec_work_names (ms : list member) : list Z :=
  flat_map (fun m => if is_work (mstate m)
                     then flat_map (fun s => match s with Svc _ n => [n] | SBad _ => [] end) (msvcs m)
                     else []) ms.

(* the answers of the query battery, judged against the member list they were built from *)
Definition index_ok (ms : list member) (q : answers) : bool :=
  match q with
  | Ans types work names worknames members =>
      list_eqb (pair_eqb Z.eqb items_opt_eqb) types
               (map (fun t => (t, nonempty (spec_list ms t))) probe_types)
      && list_eqb (pair_eqb Z.eqb items_opt_eqb) work
                  (map (fun t => (t, nonempty (spec_work ms t))) probe_types)
      && zlist_eqb (map fst names) probe_names
      && forallb (fun na => admissible_b ms (fst na) (snd na)) names
      && perm_eqb Z.eqb worknames (spec_work_names ms)
      && nodupb (map mid members)
      && forallb (fun m => option_eqb member_eqb (last_with ms (mid m)) (Some m)) members
      && forallb (fun m => zmem (mid m) (map mid members)) ms
  end.

(* one publication, judged against the history that led to it *)
Definition pub_ok (self : node) (listing : list node) (seen : list ev)
           (ms : list member) (q : answers) : bool :=
  (if forallb conform_evb seen
   then perm_eqb member_eqb ms (publish (implied self listing seen))
        && existsb (member_eqb (member_of self)) ms
   else true)
  && index_ok ms q.

(* monitor state: the node's own record, the initial listing, the events delivered so far *)
Definition mstate_t := option (node * list node * list ev).

Fixpoint monitor_from (st : mstate_t) (ops : list op) (bs : list obs) : bool :=
  match ops, bs with
  | [], [] => true
  | OStart self listing :: r, BPub ms q :: br =>
      let self' := mk_self self in
      pub_ok self' listing [] ms q && monitor_from (Some (self', listing, [])) r br
  | OBatch b :: r, o :: br =>
      match st with
      | None => (match o with BNone => true | _ => false end) && monitor_from st r br
      | Some (self, listing, seen) =>
          if is_nil b then (match o with BNone => true | _ => false end) && monitor_from st r br
          else match o with
               | BPub ms q =>
                   pub_ok self listing (seen ++ b) ms q
                   && monitor_from (Some (self, listing, seen ++ b)) r br
               | _ => false
               end
      end
  | OStress _ _ :: r, BStress ok :: br => ok && monitor_from st r br
  | _, _ => false
  end.
