(* C08 - proofs about a provider life on the scripted key space (start-up, re-watch, re-listing,
   shutdown under an arbitrary schedule). *)
From Cell2V Require Import Common.Tac Common.ListX Common.AList C08.Model C08.Spec C08.Proofs.

Lemma node_eqb_spec a b : node_eqb a b = true <-> a = b.
Proof.
  destruct a as [i al s ad sv], b as [i' al' s' ad' sv']. unfold node_eqb. simpl.
  rewrite !andb_true_iff, !Z.eqb_eq, Bool.eqb_true_iff, (list_eqb_spec svc_eqb svc_eqb_spec).
  split; [intros [[[[-> ->] ->] ->] ->]; reflexivity | intro H; inv H; auto 6].
Qed.

Lemma node_eqb_refl n : node_eqb n n = true.
Proof. apply node_eqb_spec. reflexivity. Qed.

Lemma reg_ok_refl n : nalive n = true -> reg_ok n (nid n) n = true.
Proof. intro A. unfold reg_ok. rewrite Z.eqb_refl, node_eqb_refl, A. reflexivity. Qed.

(* ------------------------------------------------------------------ positions in the log *)
Lemma firstn_app_le {A} (l x : list A) r : (r <= length l)%nat -> firstn r (l ++ x) = firstn r l.
Proof.
  intro H. rewrite firstn_app. replace (r - length l)%nat with O by lia.
  simpl. apply app_nil_r.
Qed.

Lemma firstn_plus {A} (l : list A) : forall i k, firstn (i + k) l = firstn i l ++ firstn k (skipn i l).
Proof.
  induction l as [|x r IH]; intros i k.
  - rewrite skipn_nil, !firstn_nil. reflexivity.
  - destruct i as [|i]; simpl; [reflexivity|]. rewrite IH. reflexivity.
Qed.

Lemma snap_app log mu r : (r <= length log)%nat -> snap (log ++ [mu]) r = snap log r.
Proof. intro H. unfold snap. rewrite firstn_app_le by exact H. reflexivity. Qed.

Lemma fold_mstep_sstep l : forall m, fold_left sstep (map ev_of l) m = fold_left mstep l m.
Proof.
  induction l as [|mu r IH]; intro m; simpl; [reflexivity|].
  rewrite IH. destruct mu; reflexivity.
Qed.

Lemma snap_plus log i k :
  snap log (i + k) = fold_left sstep (map ev_of (firstn k (skipn i log))) (snap log i).
Proof. unfold snap. rewrite firstn_plus, fold_left_app, fold_mstep_sstep. reflexivity. Qed.

Lemma mstep_sorted m mu : sorted m -> sorted (mstep m mu).
Proof. intro S. destruct mu; simpl; [apply sorted_aset | apply sorted_adel]; exact S. Qed.

Lemma mstep_keyed m mu : keyed m -> keyed (mstep m mu).
Proof.
  intros K k nd. destruct mu as [n|k0]; simpl.
  - rewrite aget_aset. destruct (Z.eqb_spec k (nid n)) as [E|N]; [intro H; inv H; reflexivity | apply K].
  - rewrite aget_adel. destruct (Z.eqb k k0); [discriminate | apply K].
Qed.

Lemma fold_mstep_sorted l : forall m, sorted m -> sorted (fold_left mstep l m).
Proof. induction l as [|mu r IH]; intros m S; simpl; [exact S|]. apply IH. apply mstep_sorted. exact S. Qed.

Lemma fold_mstep_keyed l : forall m, keyed m -> keyed (fold_left mstep l m).
Proof. induction l as [|mu r IH]; intros m K; simpl; [exact K|]. apply IH. apply mstep_keyed. exact K. Qed.

Lemma snap_sorted log r : sorted (snap log r).
Proof. apply fold_mstep_sorted. exact I. Qed.

Lemma snap_keyed log r : keyed (snap log r).
Proof. apply fold_mstep_keyed. intros k nd H. discriminate. Qed.

Lemma conform_mutb_spec mu : conform_mutb mu = true <-> conform_mut mu.
Proof. destruct mu; simpl; tauto. Qed.

Lemma conform_mut_ev mu : conform_mut mu -> conform_ev (ev_of mu).
Proof. destruct mu; simpl; auto. Qed.

Lemma conform_muts_evs l : Forall conform_mut l -> Forall conform_ev (map ev_of l).
Proof.
  induction 1 as [|mu r H _ IH]; simpl; constructor; [apply conform_mut_ev; exact H | exact IH].
Qed.

Lemma conform_mutb_all l : forallb conform_mutb l = true <-> Forall conform_mut l.
Proof.
  rewrite forallb_forall, Forall_forall. split; intros H x J; apply conform_mutb_spec; auto.
Qed.

(* ------------------------------------------------------------------ a listing of a key space *)
(* merging the values of a key space (updateNodes: keyed by Node.ID) gives that key space back *)
Lemma listing_get a : sorted a -> keyed a -> forall m k,
  aget k (fold_left (fun m n => aset (nid n) n m) (map snd a) m) =
  match aget k a with Some n => Some n | None => aget k m end.
Proof.
  induction a as [|[k0 v0] r IH]; intros S K m k; [reflexivity|].
  simpl in S. destruct S as [L S].
  assert (E0 : nid v0 = k0). { apply K. simpl. rewrite Z.eqb_refl. reflexivity. }
  assert (Kr : keyed r).
  { intros k1 n1 G. apply K. simpl. destruct (Z.eqb_spec k1 k0) as [E|N]; [|exact G].
    subst. rewrite (lb_not_in _ _ L) in G. discriminate. }
  cbn [map snd fold_left aget]. rewrite (IH S Kr). rewrite E0.
  destruct (Z.eqb_spec k k0) as [E|N].
  - subst. rewrite (lb_not_in _ _ L). apply aget_aset_same.
  - destruct (aget k r); [reflexivity|]. apply aget_aset_other. exact N.
Qed.

Lemma of_listing_snap log r : of_listing (map snd (snap log r)) = snap log r.
Proof.
  apply sorted_ext.
  - rewrite of_listing_listed. apply listed_sorted.
  - apply snap_sorted.
  - intro k. unfold of_listing. rewrite (listing_get _ (snap_sorted log r) (snap_keyed log r)).
    destruct (aget k (snap log r)); reflexivity.
Qed.

(* ------------------------------------------------------------------ the fold, with an arbitrary own slot *)
(* [rel] of Proofs.v with the entry under the node's own key left open: [x] is whatever sits there
   (the node's own record for a member; for a client what the listing had, or nothing) - the fold
   never touches it *)
Record grel (self : node) (x : option node) (mem m0 : alist node) : Prop := {
  gr_self : aget (nid self) mem = x;
  gr_other : forall k, k <> nid self -> aget k mem = aget k m0;
  gr_keyed : keyed mem;
  gr_sorted : sorted mem
}.

Record gbrel (self : node) (mem ch m : alist node) : Prop := {
  gb_self : aget (nid self) ch = None;
  gb_other : forall k, k <> nid self -> aget k (apply_changes mem ch) = aget k m;
  gb_keyed : keyed ch
}.

Lemma handle_ev_grel self x mem m0 ch m e :
  grel self x mem m0 -> gbrel self mem ch m -> conform_ev e ->
  gbrel self mem (handle_ev self mem ch e) (sstep m e).
Proof.
  intros R B C. destruct R as [_ Ro Rk _]. destruct B as [Bs Bo Bk].
  destruct e as [k n|k|k v]; simpl in *.
  - destruct C as [Ck Ca]. subst k.
    destruct (Z.eqb_spec (nid self) (nid n)) as [E|N].
    + constructor; [exact Bs | | exact Bk].
      intros k Hk. rewrite aget_aset, Bo by exact Hk.
      destruct (Z.eqb_spec k (nid n)); [congruence | reflexivity].
    + constructor.
      * rewrite aget_aset. destruct (Z.eqb_spec (nid self) (nid n)); [contradiction | exact Bs].
      * intros k Hk. rewrite apply_changes_get, !aget_aset.
        destruct (Z.eqb_spec k (nid n)) as [E|N2].
        -- rewrite Ca. reflexivity.
        -- rewrite <- Bo by exact Hk. rewrite apply_changes_get. reflexivity.
      * intros k nd. rewrite aget_aset.
        destruct (Z.eqb_spec k (nid n)) as [E|N2]; [intro H; inv H; reflexivity | apply Bk].
  - destruct (aget k mem) as [nd|] eqn:G.
    + pose proof (Rk _ _ G) as Kn.
      destruct (Z.eqb_spec (nid self) (nid nd)) as [E|N].
      * constructor; [exact Bs | | exact Bk].
        intros k' Hk. rewrite aget_adel, Bo by exact Hk.
        destruct (Z.eqb_spec k' k); [congruence | reflexivity].
      * constructor.
        -- rewrite aget_aset. destruct (Z.eqb_spec (nid self) k); [congruence | exact Bs].
        -- intros k' Hk. rewrite apply_changes_get, aget_aset, aget_adel.
           destruct (Z.eqb_spec k' k) as [E|N2]; [reflexivity|].
           rewrite <- Bo by exact Hk. rewrite apply_changes_get. reflexivity.
        -- intros k' nd'. rewrite aget_aset.
           destruct (Z.eqb_spec k' k) as [E|N2]; [intro H; inv H; simpl; congruence | apply Bk].
    + constructor.
      * rewrite aget_adel. destruct (Z.eqb (nid self) k); [reflexivity | exact Bs].
      * intros k' Hk. rewrite apply_changes_get, !aget_adel.
        destruct (Z.eqb_spec k' k) as [E|N2]; [subst; exact G|].
        rewrite <- Bo by exact Hk. rewrite apply_changes_get. reflexivity.
      * intros k' nd'. rewrite aget_adel. destruct (Z.eqb k' k); [discriminate | apply Bk].
  - constructor; assumption.
Qed.

Lemma handle_batch_grel self x mem m0 b :
  grel self x mem m0 -> Forall conform_ev b ->
  forall ch m, gbrel self mem ch m ->
  gbrel self mem (fold_left (handle_ev self mem) b ch) (fold_left sstep b m).
Proof.
  intros R. induction b as [|e r IH]; intros F ch m B; simpl; [exact B|].
  inv F. apply IH; [assumption|]. eapply handle_ev_grel; eassumption.
Qed.

Lemma step_batch_grel self x mem m0 b :
  grel self x mem m0 -> Forall conform_ev b ->
  grel self x (step_batch self mem b) (fold_left sstep b m0).
Proof.
  intros R F.
  assert (B0 : gbrel self mem [] m0).
  { constructor; [reflexivity | | intros k nd H; discriminate].
    intros k Hk. simpl. apply (gr_other _ _ _ _ R). exact Hk. }
  pose proof (handle_batch_grel self x mem m0 b R F [] m0 B0) as B.
  fold (handle_batch self mem b) in B. destruct B as [Bs Bo Bk].
  unfold step_batch. constructor.
  - rewrite apply_changes_get, Bs. apply (gr_self _ _ _ _ R).
  - exact Bo.
  - intros k nd. rewrite apply_changes_get.
    destruct (aget k (handle_batch self mem b)) as [n|] eqn:G.
    + destruct (nalive n); [intro H; inv H; apply (Bk _ _ G) | discriminate].
    + apply (gr_keyed _ _ _ _ R).
  - apply apply_changes_sorted. apply (gr_sorted _ _ _ _ R).
Qed.

(* the member table right after a listing of the key space at position r *)
Lemma listing_grel mode self log r :
  exists x, (mode = true -> x = Some self) /\
            grel self x (boot_listing mode self (map snd (snap log r))) (snap log r).
Proof.
  unfold boot_listing. destruct mode.
  - exists (Some self). split; [reflexivity|].
    unfold init_members. rewrite of_listing_snap. constructor.
    + apply aget_aset_same.
    + intros k Hk. apply aget_aset_other. exact Hk.
    + intros k nd. rewrite aget_aset.
      destruct (Z.eqb_spec k (nid self)) as [E|N]; [intro H; inv H; reflexivity | apply snap_keyed].
    + apply sorted_aset. apply snap_sorted.
  - exists (aget (nid self) (snap log r)). split; [discriminate|].
    rewrite of_listing_snap. constructor; [reflexivity | reflexivity | apply snap_keyed | apply snap_sorted].
Qed.

(* what the relation says about the table *)
Lemma grel_member self mem m0 : grel self (Some self) mem m0 -> sorted m0 -> mem = aset (nid self) self m0.
Proof.
  intros R S. apply sorted_ext.
  - apply (gr_sorted _ _ _ _ R).
  - apply sorted_aset. exact S.
  - intro k. rewrite aget_aset. destruct (Z.eqb_spec k (nid self)) as [E|N].
    + subst. apply (gr_self _ _ _ _ R).
    + apply (gr_other _ _ _ _ R). exact N.
Qed.

Lemma grel_client self x mem m0 : grel self x mem m0 -> sorted m0 -> adel (nid self) mem = adel (nid self) m0.
Proof.
  intros R S. apply sorted_ext.
  - apply sorted_adel. apply (gr_sorted _ _ _ _ R).
  - apply sorted_adel. exact S.
  - intro k. rewrite !aget_adel. destruct (Z.eqb_spec k (nid self)) as [E|N]; [reflexivity|].
    apply (gr_other _ _ _ _ R). exact N.
Qed.

(* the published list without the entry of the node itself *)
Lemma others_publish self mem : keyed mem -> sorted mem ->
  others self (publish mem) = publish (adel (nid self) mem).
Proof.
  intros K S.
  assert (F : Forall (fun kn : Z * node => nid (snd kn) = fst kn) mem).
  { apply Forall_forall. intros [k nd] J. simpl. apply K. apply in_aget; assumption. }
  clear K S. unfold others, publish.
  induction F as [|[k nd] r E _ IH]; [reflexivity|]. simpl in E |- *.
  rewrite E. rewrite (Z.eqb_sym (nid self) k).
  destruct (Z.eqb k (nid self)); simpl; rewrite IH; reflexivity.
Qed.

(* ------------------------------------------------------------------ the invariant of a scripted life *)
Lemma boot_pub_ok_sound mode self log r mem :
  (Forall conform_mut (firstn r log) ->
   exists x, (mode = true -> x = Some self) /\ grel self x mem (snap log r)) ->
  boot_pub_ok mode self log r (publish mem) (query_all (make_members (publish mem))) = true.
Proof.
  intro H. unfold boot_pub_ok. apply andb_true_iff. split; [|apply index_ok_sound].
  destruct (forallb conform_mutb (firstn r log)) eqn:C; [|reflexivity].
  apply conform_mutb_all in C. destruct (H C) as [x [Hx R]]. destruct mode.
  - rewrite (Hx eq_refl) in R. pose proof (grel_member _ _ _ R (snap_sorted log r)) as E.
    unfold membership. rewrite <- E. apply andb_true_iff. split; [apply perm_eqb_refl|].
    apply existsb_exists. exists (member_of self). split; [|apply member_eqb_spec; reflexivity].
    unfold publish.
    change (member_of self) with ((fun kn : Z * node => member_of (snd kn)) (nid self, self)).
    apply in_map. apply aget_in. apply (gr_self _ _ _ _ R).
  - rewrite (others_publish self mem (gr_keyed _ _ _ _ R) (gr_sorted _ _ _ _ R)).
    unfold membership. rewrite (grel_client _ _ _ _ R (snap_sorted log r)). apply perm_eqb_refl.
Qed.

(* the monitor's view of the machine *)
Definition mon_of (s : boot) : bmon :=
  BM (b_log s) (b_compact s)
     (match b_get s with GFlight _ r => Some r | _ => None end)
     (match b_watch s with WOpen i => Some i | _ => None end)
     (match b_pc s with PRun => Some (b_seen s) | _ => None end).

Record binv (self : node) (mode : bool) (s : boot) : Prop := {
  (* the member table is never ahead of the key space *)
  bi_le : (b_seen s <= length (b_log s))%nat;
  (* a watch - requested or registered - continues exactly where the member table is: nothing is
     lost and nothing is delivered twice *)
  bi_watch : match b_watch s with
             | WOpen i => i = b_seen s /\ b_pc s = PRun
             | WReq req => req = Some (b_seen s) /\ b_pc s = PRun /\ b_down s = false
             | _ => True
             end;
  (* a listing in flight is a snapshot of the key space, not older than the member table *)
  bi_get : match b_get s with
           | GFlight nodes r =>
               nodes = map snd (snap (b_log s) r) /\ (r <= length (b_log s))%nat /\
               (b_pc s = PRun -> (b_seen s <= r)%nat)
           | _ => True
           end;
  (* while a listing is awaited there is no watch *)
  bi_busy : b_get s <> GNone -> b_pc s <> PFailed /\ b_watch s = WNone;
  (* the member table is the key space at the position it has seen (own slot aside) *)
  bi_mem : b_pc s = PRun -> Forall conform_mut (firstn (b_seen s) (b_log s)) ->
           exists x, (mode = true -> x = Some self) /\
                     grel self x (b_mem s) (snap (b_log s) (b_seen s));
  (* every change of the member table has been published *)
  bi_dir : b_pc s = PRun -> b_dir s = publish (b_mem s)
}.

Lemma boot0_inv self mode dir : binv self mode (boot0 dir).
Proof.
  constructor; simpl; try exact I; try discriminate; try lia.
  intros _. split; [discriminate | reflexivity].
Qed.

Lemma bstep_inv self mode s a :
  binv self mode s -> binv self mode (fst (bstep true self mode s a)).
Proof.
  intro I. destruct s as [log cp g w pc dn mem seen ws er dir].
  destruct I as [Ile Iw Ig Ib Im Id]. simpl in Ile, Iw, Ig, Ib, Im, Id.
  destruct a as [mu| | | | |n|v| |].
  - (* AMut *)
    simpl. constructor; simpl.
    + rewrite app_length. simpl. lia.
    + exact Iw.
    + destruct g as [| |nodes r]; try exact I. destruct Ig as [E [L P]].
      split; [|split].
      * rewrite snap_app by exact L. exact E.
      * rewrite app_length. simpl. lia.
      * exact P.
    + exact Ib.
    + intros P F. rewrite firstn_app_le in F by exact Ile. rewrite snap_app by exact Ile. apply Im; assumption.
    + exact Id.
  - (* AGetEval *)
    destruct g as [| |nodes r]; simpl; try (constructor; simpl; assumption).
    constructor; simpl; try assumption.
    + split; [reflexivity|]. split; [apply Nat.le_refl|]. intros _. exact Ile.
    + intros _. apply Ib. discriminate.
  - (* AGetResp *)
    destruct g as [| |nodes r]; simpl; try (constructor; simpl; assumption).
    destruct Ig as [E [L P]]. unfold pub_of. destruct pc; simpl.
    + constructor; simpl; try exact I; try exact L.
      * auto.
      * intro H. contradiction.
      * intros _ _. subst nodes. apply listing_grel.
      * reflexivity.
    + constructor; simpl; try exact I; try exact L.
      * destruct dn; [exact I | auto].
      * intro H. contradiction.
      * intros _ _. subst nodes. apply listing_grel.
      * reflexivity.
    + constructor; simpl; auto.
  - (* AGetFail *)
    destruct g as [| |nodes r]; simpl; try (constructor; simpl; assumption).
    + destruct (Ib ltac:(discriminate)) as [Np Ew]. subst w.
      destruct pc; simpl; [| |contradiction].
      * constructor; simpl; try exact I; try assumption; try discriminate. intro H. contradiction.
      * constructor; simpl; try assumption.
        -- destruct dn; exact I.
        -- destruct dn; exact I.
        -- destruct dn; intro H; [contradiction|]. split; [discriminate | reflexivity].
    + destruct (Ib ltac:(discriminate)) as [Np Ew]. subst w.
      destruct pc; simpl; [| |contradiction].
      * constructor; simpl; try exact I; try assumption; try discriminate. intro H. contradiction.
      * constructor; simpl; try assumption.
        -- destruct dn; exact I.
        -- destruct dn; exact I.
        -- destruct dn; intro H; [contradiction|]. split; [discriminate | reflexivity].
  - (* AWatch *)
    destruct w as [|req|i|]; simpl; try (constructor; simpl; assumption).
    destruct Iw as [Er [Ep Ed]]. subst req pc dn.
    destruct (Nat.ltb (S seen) cp); simpl.
    + constructor; simpl; try exact I; try assumption.
      intros _. split; [discriminate | reflexivity].
    + constructor; simpl; try assumption.
      * auto.
      * intro H. destruct (Ib H) as [_ Ew]. discriminate.
  - (* ADeliver *)
    destruct w as [|req|i|]; simpl; try (constructor; simpl; assumption).
    destruct Iw as [Ei Ep]. subst i pc.
    assert (G : g = GNone).
    { destruct g; [reflexivity | |]; destruct (Ib ltac:(discriminate)) as [_ Ew]; discriminate. }
    subst g.
    destruct (Nat.min (Z.to_nat n) (length log - seen)) as [|k'] eqn:Ek; simpl.
    + constructor; simpl; auto.
    + unfold pub_of. simpl.
      assert (Lk : (seen + S k' <= length log)%nat).
      { pose proof (Nat.le_min_r (Z.to_nat n) (length log - seen)) as M. rewrite Ek in M. lia. }
      constructor; simpl; try exact I; try exact Lk.
      * auto.
      * intro H. contradiction.
      * intros _ F. rewrite firstn_plus in F. apply Forall_app in F. destruct F as [F1 F2].
        destruct (Im eq_refl F1) as [x [Hx R]]. exists x. split; [exact Hx|].
        rewrite snap_plus. apply step_batch_grel; [exact R | apply conform_muts_evs; exact F2].
      * reflexivity.
  - (* AWatchFail *)
    destruct w as [|req|i|]; simpl; try (constructor; simpl; assumption).
    destruct Iw as [Ei Ep]. subst i pc.
    assert (G : g = GNone).
    { destruct g; [reflexivity | |]; destruct (Ib ltac:(discriminate)) as [_ Ew]; discriminate. }
    subst g.
    destruct dn; simpl; constructor; simpl; try exact I; try assumption; auto; intro H; contradiction.
  - (* ACompact *)
    simpl. constructor; simpl; assumption.
  - (* AShutdown *)
    destruct pc; simpl; try (constructor; simpl; assumption).
    destruct dn; simpl; try (constructor; simpl; assumption).
    constructor; simpl; try assumption.
    + destruct w; try exact I. exact (conj (proj1 Iw) eq_refl).
    + intro H. destruct (Ib H) as [_ Ew]. subst w. split; [discriminate | reflexivity].
Qed.

(* the property monitor accepts every step of the machine *)
Lemma bstep_mon self mode s a :
  nalive self = true -> binv self mode s ->
  bmon_step mode self (mon_of s) a (snd (bstep true self mode s a)) =
  Some (mon_of (fst (bstep true self mode s a))).
Proof.
  intros Al I. pose proof (bstep_inv self mode s a I) as I'.
  destruct s as [log cp g w pc dn mem seen ws er dir].
  destruct I as [Ile Iw Ig Ib Im Id]. simpl in Ile, Iw, Ig, Ib, Im, Id.
  destruct a as [mu| | | | |n|v| |].
  - (* AMut *) reflexivity.
  - (* AGetEval *) destruct g; reflexivity.
  - (* AGetResp *)
    destruct g as [| |nodes r]; try reflexivity.
    destruct Ig as [E [L P]].
    destruct pc.
    + (* the start call returns *)
      assert (W : match w with WOpen i => Some i | _ => None end = None).
      { destruct w as [|req|i|]; try reflexivity. destruct Iw as [_ Ep]. discriminate. }
      revert I'. unfold bstep, pub_of, mon_of. cbn [b_get b_pc b_log b_compact b_watch b_seen b_mem fst snd].
      intro I'. cbn [bmon_step bm_get bm_seen bm_log bm_compact bm_watch seen_max].
      rewrite boot_pub_ok_sound by (intro F; apply (bi_mem _ _ _ I' eq_refl F)).
      rewrite W.
      destruct mode; cbn [is_nil negb forallb fst snd andb]; [rewrite (reg_ok_refl self Al)|]; reflexivity.
    + (* the listing fetched again *)
      assert (W : match w with WOpen i => Some i | _ => None end = None).
      { destruct (Ib ltac:(discriminate)) as [_ Ew]. subst w. reflexivity. }
      revert I'. unfold bstep, pub_of, mon_of. cbn [b_get b_pc b_log b_compact b_watch b_seen b_mem b_down fst snd].
      intro I'. cbn [bmon_step bm_get bm_seen bm_log bm_compact bm_watch seen_max].
      rewrite (Nat.max_r seen r (P eq_refl)).
      rewrite boot_pub_ok_sound by (intro F; apply (bi_mem _ _ _ I' eq_refl F)).
      rewrite W. destruct dn; reflexivity.
    + destruct (Ib ltac:(discriminate)) as [Np _]. contradiction.
  - (* AGetFail *)
    destruct g as [| |nodes r]; try reflexivity.
    + destruct (Ib ltac:(discriminate)) as [Np Ew]. subst w.
      destruct pc; [reflexivity | destruct dn; reflexivity | contradiction].
    + destruct (Ib ltac:(discriminate)) as [Np Ew]. subst w.
      destruct pc; [reflexivity | destruct dn; reflexivity | contradiction].
  - (* AWatch *)
    destruct w as [|req|i|]; try reflexivity.
    destruct Iw as [Er [Ep Ed]]. subst req pc dn.
    assert (G : g = GNone).
    { destruct g; [reflexivity | |]; destruct (Ib ltac:(discriminate)) as [_ Ew]; discriminate. }
    subst g.
    unfold bstep, mon_of. cbn [b_watch b_log b_compact b_get b_pc b_seen fst snd].
    destruct (Nat.ltb (S seen) cp); cbn [fst snd b_watch b_log b_compact b_get b_pc b_seen]; [reflexivity|].
    cbn [bmon_step bm_seen bm_log bm_compact bm_get bm_watch].
    replace (Z.of_nat seen + 2 - 2) with (Z.of_nat seen) by lia. rewrite Nat2Z.id.
    rewrite (proj2 (Z.leb_le 2 (Z.of_nat seen + 2))) by lia.
    rewrite (proj2 (Nat.leb_le seen (length log)) Ile).
    rewrite (proj2 (Nat.leb_le seen seen) (Nat.le_refl seen)). reflexivity.
  - (* ADeliver *)
    destruct w as [|req|i|]; try reflexivity.
    destruct Iw as [Ei Ep]. subst i pc.
    revert I'. unfold bstep, pub_of, mon_of.
    cbn [b_watch b_log b_compact b_get b_pc b_seen b_mem fst snd bmon_step bm_seen bm_log bm_compact bm_get bm_watch].
    destruct (Nat.min (Z.to_nat n) (length log - seen)) as [|k'] eqn:Ek;
      cbn [fst snd b_watch b_log b_compact b_get b_pc b_seen b_mem]; intro I'; [reflexivity|].
    cbn [seen_max Nat.eqb negb andb].
    rewrite (Nat.max_r seen (seen + S k')) by lia.
    rewrite boot_pub_ok_sound by (intro F; apply (bi_mem _ _ _ I' eq_refl F)).
    reflexivity.
  - (* AWatchFail *)
    destruct w as [|req|i|]; try reflexivity.
    unfold bstep, mon_of. cbn [b_watch b_down]. destruct dn; reflexivity.
  - (* ACompact *) reflexivity.
  - (* AShutdown *)
    destruct pc; try reflexivity. destruct dn; try reflexivity.
    unfold bstep, mon_of. cbn [b_pc b_down fst snd b_watch b_log b_compact b_get b_seen bmon_step].
    rewrite Z.eqb_refl. cbn [andb]. destruct w; reflexivity.
Qed.

Lemma boot_run_cons fixed self mode s a r :
  boot_run fixed self mode s (a :: r) =
  (fst (boot_run fixed self mode (fst (bstep fixed self mode s a)) r),
   snd (bstep fixed self mode s a) :: snd (boot_run fixed self mode (fst (bstep fixed self mode s a)) r)).
Proof.
  cbn [boot_run]. destruct (bstep fixed self mode s a) as [s1 x]. cbn [fst snd].
  destruct (boot_run fixed self mode s1 r) as [s2 xs]. reflexivity.
Qed.

Lemma boot_run_inv self mode acts : forall s,
  binv self mode s -> binv self mode (fst (boot_run true self mode s acts)).
Proof.
  induction acts as [|a r IH]; intros s I; [exact I|].
  rewrite boot_run_cons. cbn [fst]. apply IH. apply bstep_inv. exact I.
Qed.

Theorem boot_monitor_sound self mode acts : forall s,
  nalive self = true -> binv self mode s ->
  boot_monitor mode self (mon_of s) acts (snd (boot_run true self mode s acts)) = true.
Proof.
  induction acts as [|a r IH]; intros s Al I; [reflexivity|].
  rewrite boot_run_cons. cbn [snd boot_monitor].
  rewrite (bstep_mon self mode s a Al I). apply IH; [exact Al|]. apply bstep_inv. exact I.
Qed.

(* the list last handed to the Cluster, read off the observations *)
Lemma bstep_dir fixed self mode s a :
  b_dir (fst (bstep fixed self mode s a)) =
  match snd (bstep fixed self mode s a) with
  | XStart _ _ ms _ | XPub ms _ => ms
  | _ => b_dir s
  end.
Proof.
  destruct s as [log cp g w pc dn mem seen ws er dir].
  destruct a as [mu| | | | |n|v| |]; cbn [bstep b_get b_watch b_pc b_down b_log b_compact b_mem b_seen b_watches b_err b_dir].
  - reflexivity.
  - destruct g; reflexivity.
  - destruct g as [| |nodes r]; try reflexivity. unfold pub_of. destruct pc; reflexivity.
  - destruct g as [| |nodes r]; try reflexivity; destruct pc; reflexivity.
  - destruct w as [|req|i|]; try reflexivity.
    destruct (Nat.ltb _ _); reflexivity.
  - destruct w as [|req|i|]; try reflexivity.
    destruct (Nat.min _ _); [reflexivity|]. unfold pub_of. reflexivity.
  - destruct w as [|req|i|]; try reflexivity. destruct dn; reflexivity.
  - reflexivity.
  - destruct pc; try reflexivity. destruct dn; reflexivity.
Qed.

Lemma boot_run_dir fixed self mode acts : forall s,
  b_dir (fst (boot_run fixed self mode s acts)) =
  boot_last_pub (b_dir s) (snd (boot_run fixed self mode s acts)).
Proof.
  induction acts as [|a r IH]; intro s; [reflexivity|].
  rewrite boot_run_cons. cbn [fst snd]. rewrite IH, bstep_dir.
  unfold boot_last_pub. cbn [fold_left].
  destruct (snd (bstep fixed self mode s a)); reflexivity.
Qed.

(* ------------------------------------------------------------------ the theorems *)
Lemma boot_run_app fixed self mode a1 : forall s a2,
  fst (boot_run fixed self mode s (a1 ++ a2)) =
  fst (boot_run fixed self mode (fst (boot_run fixed self mode s a1)) a2).
Proof.
  induction a1 as [|a r IH]; intros s a2; [reflexivity|].
  rewrite <- app_comm_cons, !boot_run_cons. cbn [fst]. apply IH.
Qed.

(* after ANY schedule: the member table is the key space at the position it has seen - plus the node
   itself for a member, all other nodes for a client - and it is what was published last *)
Theorem boot_directory self mode dir acts :
  let s := fst (boot_run true self mode (boot0 dir) acts) in
  b_pc s = PRun -> Forall conform_mut (firstn (b_seen s) (b_log s)) ->
  b_dir s = publish (b_mem s) /\
  (mode = true -> b_mem s = membership true self (b_log s) (b_seen s)) /\
  (mode = false -> adel (nid self) (b_mem s) = membership false self (b_log s) (b_seen s)).
Proof.
  intros s P F. pose proof (boot_run_inv self mode acts _ (boot0_inv self mode dir)) as I.
  fold s in I. destruct (bi_mem _ _ _ I P F) as [x [Hx R]].
  split; [apply (bi_dir _ _ _ I P)|]. split; intro M.
  - rewrite (Hx M) in R. apply grel_member; [exact R | apply snap_sorted].
  - unfold membership. apply (grel_client _ _ _ _ R). apply snap_sorted.
Qed.

(* nothing is lost, nothing is repeated: a watch - requested or registered - continues exactly at the
   position of the member table, a listing in flight is a snapshot not older than it *)
Theorem boot_lossless self mode dir acts :
  let s := fst (boot_run true self mode (boot0 dir) acts) in
  (b_seen s <= length (b_log s))%nat /\
  (forall i, b_watch s = WOpen i -> i = b_seen s) /\
  (forall req, b_watch s = WReq req -> req = Some (b_seen s)) /\
  (forall nodes r, b_get s = GFlight nodes r -> b_pc s = PRun ->
                   nodes = map snd (snap (b_log s) r) /\ (b_seen s <= r <= length (b_log s))%nat).
Proof.
  intro s. pose proof (boot_run_inv self mode acts _ (boot0_inv self mode dir)) as I. fold s in I.
  destruct I as [Ile Iw Ig _ _ _].
  split; [exact Ile|]. split; [|split].
  - intros i E. rewrite E in Iw. apply Iw.
  - intros req E. rewrite E in Iw. apply Iw.
  - intros nodes r E P. rewrite E in Ig. destruct Ig as [En [L Ps]]. split; [exact En|]. split; [apply Ps; exact P | exact L].
Qed.

(* so: whenever the open watch has delivered everything, the directory IS the current membership *)
Theorem boot_current self mode dir acts :
  let s := fst (boot_run true self mode (boot0 dir) acts) in
  b_watch s = WOpen (length (b_log s)) -> Forall conform_mut (b_log s) ->
  b_dir s = publish (b_mem s) /\
  (mode = true -> b_mem s = membership true self (b_log s) (length (b_log s))) /\
  (mode = false -> adel (nid self) (b_mem s) = membership false self (b_log s) (length (b_log s))).
Proof.
  intros s W F. pose proof (boot_run_inv self mode acts _ (boot0_inv self mode dir)) as I. fold s in I.
  pose proof (bi_watch _ _ _ I) as Iw. rewrite W in Iw. destruct Iw as [E P].
  pose proof (boot_directory self mode dir acts) as D. cbv zeta in D. fold s in D.
  rewrite <- E in D. apply D; [exact P|]. rewrite firstn_all. exact F.
Qed.

(* nothing older ever replaces something newer: the position of the member table only grows *)
Lemma bstep_monotone self mode s a :
  binv self mode s -> b_pc s = PRun ->
  b_pc (fst (bstep true self mode s a)) = PRun /\
  (b_seen s <= b_seen (fst (bstep true self mode s a)))%nat.
Proof.
  intros I P. destruct s as [log cp g w pc dn mem seen ws er dir].
  destruct I as [Ile Iw Ig Ib Im Id]. simpl in Ile, Iw, Ig, Ib, Im, Id, P. subst pc.
  destruct a as [mu| | | | |n|v| |]; cbn [bstep b_get b_watch b_pc b_down b_log b_compact b_mem b_seen b_watches b_err b_dir].
  - simpl. auto.
  - destruct g; simpl; auto.
  - destruct g as [| |nodes r]; simpl; auto. unfold pub_of. simpl. split; [reflexivity|]. apply Ig. reflexivity.
  - destruct g as [| |nodes r]; simpl; auto.
  - destruct w as [|req|i|]; simpl; auto. destruct (Nat.ltb _ _); simpl; auto.
  - destruct w as [|req|i|]; simpl; auto. destruct Iw as [Ei _]. subst i.
    destruct (Nat.min _ _); simpl; auto. unfold pub_of. simpl. split; [reflexivity | lia].
  - destruct w as [|req|i|]; simpl; auto. destruct dn; simpl; auto.
  - simpl. auto.
  - destruct dn; simpl; auto.
Qed.

Theorem boot_monotone self mode dir a1 a2 :
  let s1 := fst (boot_run true self mode (boot0 dir) a1) in
  let s2 := fst (boot_run true self mode (boot0 dir) (a1 ++ a2)) in
  b_pc s1 = PRun -> b_pc s2 = PRun /\ (b_seen s1 <= b_seen s2)%nat.
Proof.
  intros s1 s2 P. subst s2. rewrite boot_run_app. fold s1.
  pose proof (boot_run_inv self mode a1 _ (boot0_inv self mode dir)) as I. fold s1 in I.
  clearbody s1. revert s1 I P. induction a2 as [|a r IH]; intros s1 I P; [simpl; auto|].
  rewrite boot_run_cons. cbn [fst].
  destruct (bstep_monotone self mode s1 a I P) as [P' L].
  destruct (IH _ (bstep_inv self mode s1 a I) P') as [P2 L2]. split; [exact P2 | lia].
Qed.

(* the node itself is in every list a member publishes *)
Theorem boot_self_present self dir acts :
  let s := fst (boot_run true self true (boot0 dir) acts) in
  b_pc s = PRun -> Forall conform_mut (firstn (b_seen s) (b_log s)) ->
  In (member_of self) (b_dir s).
Proof.
  intros s P F. destruct (boot_directory self true dir acts P F) as [D [M _]]. fold s in D, M.
  rewrite D, (M eq_refl). unfold publish, membership.
  change (member_of self) with ((fun kn : Z * node => member_of (snd kn)) (nid self, self)).
  apply in_map. apply aget_in. apply aget_aset_same.
Qed.

Theorem boot_monitor_accepts self mode dir acts :
  nalive self = true ->
  boot_monitor mode self bmon0 acts (snd (boot_run true self mode (boot0 dir) acts)) = true.
Proof. intro Al. exact (boot_monitor_sound self mode acts (boot0 dir) Al (boot0_inv self mode dir)). Qed.
