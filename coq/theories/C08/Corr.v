(* C08 - correspondence entry point.  [agree]: the model (fold of the watch stream, index
   construction) against the implementation's observations; [monitor]: the property itself
   (Spec.v: implied set, plain index specifications) evaluated on the implementation's trace.

   What is compared, per publication:
     - the published member list, as a multiset (the Go code walks a map);
     - the answers of the real getters after the real MakeMembers was given that list in the
       order recorded in the observation: per-type and working lists exactly (order included),
       GetService as membership in the admissible set (first item of that name in the list of
       some type - Go walks the type map in arbitrary order), GetWorkServiceNames and
       GetMembers as multisets. *)
From Cell2V Require Import Common.Tac Common.ListX Common.AList C08.Model C08.Spec.

Definition typed_eqb := list_eqb (pair_eqb Z.eqb items_opt_eqb).

Definition model_admissible_b (ix : index) (n : Z) (a : option item) : bool :=
  match a with
  | None => match get_service ix n with None => true | Some _ => false end
  | Some it => existsb (fun tl => option_eqb item_eqb (find (named n) (snd tl)) (Some it))
                       (ix_types ix)
  end.

Definition answers_agree (ix : index) (q : answers) : bool :=
  match query_all ix, q with
  | Ans t1 w1 n1 wn1 m1, Ans t2 w2 n2 wn2 m2 =>
      typed_eqb t1 t2 && typed_eqb w1 w2
      && zlist_eqb (map fst n1) (map fst n2)
      && forallb (fun na => model_admissible_b ix (fst na) (snd na)) n2
      && perm_eqb Z.eqb wn1 wn2
      && perm_eqb member_eqb m1 m2
  end.

(* the package-level getters, judged against the model's index of the list the implementation
   itself last handed to its Cluster *)
Definition ext_agree (dir : list member) (e : ext) : bool :=
  let ix := make_members dir in
  ext_ok (types_of dir) (lst (ix_types ix)) (lst (ix_working ix)) e.

Definition regs_eqb := list_eqb (pair_eqb Z.eqb node_eqb).

(* one action of a scripted life *)
Definition bobs_agree (model impl : bobs) : bool :=
  match model, impl with
  | XNone, XNone => true
  | XAck, XAck => true
  | XFail, XFail => true
  | XStart regs w ms _, XStart regs' w' ms' q' =>
      regs_eqb regs regs' && Bool.eqb w w'
      && perm_eqb member_eqb ms ms' && answers_agree (make_members ms') q'
  | XPub ms _, XPub ms' q' => perm_eqb member_eqb ms ms' && answers_agree (make_members ms') q'
  | XWReg a, XWReg b => Z.eqb a b
  | XWComp, XWComp => true
  | XWatch n h, XWatch n' h' => Z.eqb n n' && Bool.eqb h h'
  | XDown k c, XDown k' c' => Z.eqb k k' && Bool.eqb c c'
  | _, _ => false
  end.

Fixpoint bobs_all_agree (a b : list bobs) : bool :=
  match a, b with
  | [], [] => true
  | x :: r, y :: t => bobs_agree x y && bobs_all_agree r t
  | _, _ => false
  end.

(* [dir]: the member list of the implementation's last publication *)
Definition obs_agree (dir : list member) (model impl : obs) : bool :=
  match model, impl with
  | BNone, BNone => true
  | BFail, BFail => true
  | BStart regs w ms _, BStart regs' w' ms' q' =>
      regs_eqb regs regs' && Bool.eqb w w'
      && perm_eqb member_eqb ms ms' && answers_agree (make_members ms') q'
  | BPub ms _, BPub ms' q' => perm_eqb member_eqb ms ms' && answers_agree (make_members ms') q'
  | BReg k n, BReg k' n' => Z.eqb k k' && node_eqb n n'
  | BWatch n h, BWatch n' h' => Z.eqb n n' && Bool.eqb h h'
  | BDown k c, BDown k' c' => Z.eqb k k' && Bool.eqb c c'
  | BQuery _, BQuery e' => ext_agree dir e'
  | BNode n ok, BNode n' ok' => node_eqb n n' && Bool.eqb ok ok'
  | BStress x, BStress y => Bool.eqb x y
  | BBoot xs, BBoot xs' => bobs_all_agree xs xs'
  | _, _ => false
  end.

Definition impl_dir (dir : list member) (impl : obs) : list member :=
  match impl with
  | BStart _ _ ms _ | BPub ms _ => ms
  | BBoot xs => boot_last_pub dir xs
  | _ => dir
  end.

Fixpoint agree_from (s : pstate) (dir : list member) (ops : list op) (bs : list obs) : bool :=
  match ops, bs with
  | [], [] => true
  | o :: r, b :: br =>
      let '(s1, mb) := step_op s o in
      obs_agree dir mb b && agree_from s1 (impl_dir dir b) r br
  | _, _ => false
  end.

Definition case := (list op * list obs)%type.

Definition agree (c : case) : bool := agree_from init_state [] (fst c) (snd c).
Definition monitor (c : case) : bool := monitor_from (None, []) (fst c) (snd c).

Definition disagreeing (cs : list case) : list Z := failing agree cs.
Definition monitor_failing (cs : list case) : list Z := failing monitor cs.
