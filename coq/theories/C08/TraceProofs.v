(* C08 - the executable checks accept the model's own run: the trace monitor (Spec.v) and the
   model/implementation comparison (Corr.v). *)
From Cell2V Require Import Common.Tac Common.ListX Common.AList C08.Model C08.Spec C08.Corr C08.Proofs C08.BootProofs.

(* ================================================================== the trace monitor *)
(* model state versus monitor state *)
Definition corr (sm : pstate) (st : mstate_t) : Prop :=
  snd sm = snd st /\
  match fst sm, fst st with
  | None, None => True
  | Some p, Some m =>
      p_self p = m_self m /\ p_watches p = m_watches m /\ p_err p = m_err m /\
      nalive (p_self p) = true /\
      (forallb conform_evb (m_seen m) = true ->
       rel (p_self p) (p_mem p) (fold_left sstep (m_seen m) (listed (m_listing m))))
  | _, _ => False
  end.

Lemma monitor_run ops : forall sm st, corr sm st -> monitor_from st ops (run_from sm ops) = true.
Proof.
  induction ops as [|o r IH]; intros [pv dir] [mp dir'] [Cd C]; [reflexivity|].
  simpl in Cd, C. subst dir'.
  destruct o as [self listing|b|st0|v0|v| | |n|id addr svcs|a b|self mode acts].
  - (* OStart *)
    simpl. destruct (if Z.ltb (naddr self) (-1) then None else listing_nodes listing) as [nodes|].
    + unfold pub_of. simpl. rewrite !andb_true_iff.
      repeat match goal with |- _ /\ _ => split end; try reflexivity.
      * apply (reg_ok_refl (mk_self self)). reflexivity.
      * apply (reg_ok_refl (mk_self self)). reflexivity.
      * apply pub_ok_sound. intros _. apply rel_implied. simpl. apply init_rel.
      * apply IH. split; [reflexivity|]. simpl.
        do 4 (split; [reflexivity|]). intros _. apply init_rel.
    + apply IH. split; [reflexivity | exact I].
  - (* OBatch *)
    destruct pv as [p|], mp as [m|]; simpl in C; try contradiction.
    + destruct C as [Es [Ew [Ee [Al C]]]]. simpl. destruct (is_nil b) eqn:Nb.
      * simpl. apply IH. split; [reflexivity|]. simpl. auto.
      * unfold pub_of. simpl. apply andb_true_iff.
        assert (R : forallb conform_evb (m_seen m ++ b) = true ->
                    rel (p_self p) (step_batch (p_self p) (p_mem p) b)
                        (fold_left sstep (m_seen m ++ b) (listed (m_listing m)))).
        { intro F. rewrite forallb_app in F. apply andb_true_iff in F. destruct F as [F1 F2].
          rewrite fold_left_app. apply step_batch_rel; [apply C; exact F1 | apply conform_all_spec; exact F2]. }
        split.
        -- rewrite <- Es. apply pub_ok_sound. intro F. apply rel_implied. apply R. exact F.
        -- apply IH. split; [reflexivity|]. simpl. auto.
    + simpl. apply IH. split; [reflexivity | exact I].
  - (* OSelfState *)
    destruct pv as [p|], mp as [m|]; simpl in C; try contradiction.
    + destruct C as [Es [Ew [Ee [Al C]]]]. simpl. apply andb_true_iff. split.
      * rewrite <- Es. apply (reg_ok_refl (with_state (p_self p) st0)). exact Al.
      * apply IH. split; [reflexivity|]. simpl. rewrite <- Es.
        split; [reflexivity|]. split; [exact Ew|]. split; [exact Ee|]. split; [exact Al|].
        intro F. apply rel_set_state. apply C. exact F.
    + simpl. apply IH. split; [reflexivity | exact I].
  - (* OLeaseLost *)
    destruct pv as [p|], mp as [m|]; simpl in C; try contradiction.
    + pose proof C as [Es [Ew [Ee [Al C']]]]. simpl. apply andb_true_iff. split.
      * rewrite <- Es. apply reg_ok_refl. exact Al.
      * apply IH. split; [reflexivity | exact C].
    + simpl. apply IH. split; [reflexivity | exact I].
  - (* ORewatch *)
    destruct pv as [p|], mp as [m|]; simpl in C; try contradiction.
    + destruct C as [Es [Ew [Ee [Al C]]]]. simpl. rewrite <- Ew, <- Ee, Z.eqb_refl, Bool.eqb_reflx. simpl.
      apply IH. split; [reflexivity|]. simpl. auto.
    + simpl. apply IH. split; [reflexivity | exact I].
  - (* OShutdown *)
    destruct pv as [p|], mp as [m|]; simpl in C; try contradiction.
    + destruct C as [Es _]. simpl. rewrite <- Es, Z.eqb_refl. simpl.
      apply IH. split; [reflexivity | exact I].
    + simpl. apply IH. split; [reflexivity | exact I].
  - (* OQuery *)
    cbn [run_from step_op monitor_from]. apply andb_true_iff. split; [apply ext_spec_sound|].
    apply IH. split; [reflexivity | exact C].
  - (* ONode *)
    cbn [run_from step_op monitor_from]. rewrite node_eqb_refl. simpl.
    apply IH. split; [reflexivity | exact C].
  - (* OSelfCluster *)
    cbn [run_from step_op monitor_from]. rewrite !andb_true_iff. split; [split|].
    + cbn [list_eqb]. rewrite (proj2 (member_eqb_spec _ _) eq_refl). reflexivity.
    + apply index_ok_sound.
    + apply IH. split; [reflexivity | exact C].
  - (* OStress *)
    simpl. apply IH. split; [reflexivity | exact C].
  - (* OBoot *)
    cbn [run_from step_op]. destruct (Z.ltb (naddr self) (-1)) eqn:Ad.
    + cbn [monitor_from]. rewrite Ad. apply IH. split; [reflexivity | exact I].
    + pose proof (boot_run_dir true (mk_self self) mode acts (boot0 dir)) as D.
      pose proof (boot_monitor_sound (mk_self self) mode acts (boot0 dir) eq_refl
                    (boot0_inv (mk_self self) mode dir)) as M.
      destruct (boot_run true (mk_self self) mode (boot0 dir) acts) as [bt xs].
      cbn [fst snd b_dir boot0] in D, M. cbn [monitor_from]. rewrite Ad.
      change (mon_of (boot0 dir)) with bmon0 in M. rewrite M. cbn [andb].
      apply IH. split; [cbn [snd]; exact D | exact I].
Qed.

Theorem monitor_sound ops : monitor_from (None, []) ops (run ops) = true.
Proof. apply monitor_run. split; [reflexivity | exact I]. Qed.

(* the comparison used by the correspondence accepts the model's own run *)

Lemma typed_eqb_refl l : typed_eqb l l = true.
Proof. apply (list_eqb_spec _ typed_pair_spec). reflexivity. Qed.

Lemma model_admissible_refl ms n :
  model_admissible_b (make_members ms) n (get_service (make_members ms) n) = true.
Proof.
  unfold model_admissible_b. destruct (get_service (make_members ms) n) as [it|] eqn:G; [|reflexivity].
  rewrite service_index in G. apply find_flat_map_some in G. destruct G as [tl [J F]].
  apply existsb_exists. exists tl. split; [exact J|]. rewrite F. simpl. apply item_eqb_spec. reflexivity.
Qed.

Lemma answers_agree_refl ms : answers_agree (make_members ms) (query_all (make_members ms)) = true.
Proof.
  unfold answers_agree, query_all. rewrite !andb_true_iff.
  repeat match goal with |- _ /\ _ => split end.
  - apply typed_eqb_refl.
  - apply typed_eqb_refl.
  - apply zlist_eqb_spec. reflexivity.
  - apply forallb_forall. intros [n a] J. apply in_map_iff in J. destruct J as [n' [E _]]. inv E.
    simpl. apply model_admissible_refl.
  - apply perm_eqb_refl.
  - apply perm_eqb_refl.
Qed.

Lemma cands_ext tys (L L' : Z -> list item) n : (forall t, L t = L' t) -> cands tys L n = cands tys L' n.
Proof.
  intro H. unfold cands. induction tys as [|t r IH]; simpl; [reflexivity|]. rewrite H, IH. reflexivity.
Qed.

Lemma ext_agree_refl dir : ext_agree dir (ext_of (make_members dir)) = true.
Proof.
  unfold ext_agree. apply ext_sound; try reflexivity.
  intro n. rewrite (cands_ext (types_of dir) _ (spec_list dir) n (lst_types dir)).
  apply service_cands.
Qed.

Lemma regs_eqb_refl l : regs_eqb l l = true.
Proof.
  apply list_eqb_spec; [|reflexivity].
  apply pair_eqb_spec; [apply Z.eqb_eq | apply node_eqb_spec].
Qed.

(* what the machine shows for a publication is the query battery of the published list *)
Definition bobs_wf (x : bobs) : Prop :=
  match x with
  | XStart _ _ ms q | XPub ms q => q = query_all (make_members ms)
  | _ => True
  end.

Lemma bstep_wf fixed self mode s a : bobs_wf (snd (bstep fixed self mode s a)).
Proof.
  destruct s as [log cp g w pc dn mem seen ws er dir].
  destruct a as [mu| | | | |n|v| |]; cbn [bstep b_get b_watch b_pc b_down b_log b_compact b_mem b_seen b_watches b_err b_dir].
  - exact I.
  - destruct g; exact I.
  - destruct g as [| |nodes r]; try exact I. unfold pub_of. destruct pc; simpl; reflexivity.
  - destruct g as [| |nodes r]; try exact I; destruct pc; exact I.
  - destruct w as [|req|i|]; try exact I. destruct (Nat.ltb _ _); exact I.
  - destruct w as [|req|i|]; try exact I. destruct (Nat.min _ _); [exact I|]. unfold pub_of. simpl. reflexivity.
  - destruct w as [|req|i|]; try exact I. destruct dn; exact I.
  - exact I.
  - destruct pc; try exact I. destruct dn; exact I.
Qed.

Lemma boot_run_wf fixed self mode acts : forall s, Forall bobs_wf (snd (boot_run fixed self mode s acts)).
Proof.
  induction acts as [|a r IH]; intro s; [constructor|].
  rewrite boot_run_cons. cbn [snd]. constructor; [apply bstep_wf | apply IH].
Qed.

Lemma bobs_agree_refl x : bobs_wf x -> bobs_agree x x = true.
Proof.
  destruct x; cbn [bobs_agree bobs_wf]; intro W; try reflexivity.
  - subst q. rewrite regs_eqb_refl, Bool.eqb_reflx, perm_eqb_refl, answers_agree_refl. reflexivity.
  - subst q. rewrite perm_eqb_refl, answers_agree_refl. reflexivity.
  - apply Z.eqb_refl.
  - rewrite Z.eqb_refl, Bool.eqb_reflx. reflexivity.
  - rewrite Z.eqb_refl, Bool.eqb_reflx. reflexivity.
Qed.

Lemma bobs_all_agree_refl xs : Forall bobs_wf xs -> bobs_all_agree xs xs = true.
Proof.
  induction 1 as [|x r W _ IH]; [reflexivity|]. cbn [bobs_all_agree]. rewrite (bobs_agree_refl x W). exact IH.
Qed.

Lemma agree_run ops : forall s, agree_from s (snd s) ops (run_from s ops) = true.
Proof.
  induction ops as [|o r IH]; intro s; [reflexivity|].
  simpl. destruct (step_op s o) as [s1 b] eqn:E. simpl.
  assert (H : obs_agree (snd s) b b = true /\ impl_dir (snd s) b = snd s1).
  { destruct s as [pv dir]. cbn [snd].
    destruct o as [self listing|bt|st0|v0|v| | |n|id addr svcs|a b'|self mode acts]; cbn [step_op] in E.
    - destruct (if Z.ltb (naddr self) (-1) then None else listing_nodes listing).
      + unfold pub_of in E. inv E. cbn [obs_agree impl_dir snd].
        rewrite regs_eqb_refl, perm_eqb_refl, answers_agree_refl. auto.
      + inv E. auto.
    - destruct pv as [p|]; [|inv E; auto].
      destruct (is_nil bt); [inv E; auto|].
      unfold pub_of in E. inv E. cbn [obs_agree impl_dir snd].
      rewrite perm_eqb_refl, answers_agree_refl. auto.
    - destruct pv as [p|]; inv E; cbn [obs_agree impl_dir snd]; [|auto].
      rewrite Z.eqb_refl, node_eqb_refl. auto.
    - destruct pv as [p|]; inv E; cbn [obs_agree impl_dir snd]; [|auto].
      rewrite Z.eqb_refl, node_eqb_refl. auto.
    - destruct pv as [p|]; inv E; cbn [obs_agree impl_dir snd]; [|auto].
      rewrite Z.eqb_refl, Bool.eqb_reflx. auto.
    - destruct pv as [p|]; inv E; cbn [obs_agree impl_dir snd]; [|auto].
      rewrite Z.eqb_refl. auto.
    - inv E. cbn [obs_agree impl_dir snd]. rewrite ext_agree_refl. auto.
    - inv E. cbn [obs_agree impl_dir snd]. rewrite node_eqb_refl. auto.
    - inv E. cbn [obs_agree impl_dir snd]. rewrite perm_eqb_refl, answers_agree_refl. auto.
    - inv E. auto.
    - destruct (Z.ltb (naddr self) (-1)); [inv E; auto|].
      pose proof (boot_run_dir true (mk_self self) mode acts (boot0 dir)) as D.
      pose proof (boot_run_wf true (mk_self self) mode acts (boot0 dir)) as W.
      destruct (boot_run true (mk_self self) mode (boot0 dir) acts) as [bt xs]. inv E.
      cbn [obs_agree impl_dir snd fst b_dir boot0] in D, W |- *.
      split; [apply bobs_all_agree_refl; exact W | symmetry; exact D]. }
  destruct H as [H1 H2]. rewrite H1, H2. apply IH.
Qed.

Theorem agree_sound ops : agree (ops, run ops) = true.
Proof. apply (agree_run ops init_state). Qed.

