#!/usr/bin/env python3
"""Runs the repository's baseline test command (guard OFF) and compares with BASELINE.json."""
import json, os, subprocess, sys
mods = [".", "./apimapper", "./functest", "./pomeloclient", "./pomelonet", "./utils"]
repo = sys.argv[1] if len(sys.argv) > 1 else "/repo"
base = json.load(open("/root/.vp/BASELINE.json"))
want = set(base["stable_pass"])
res = {}
env = dict(os.environ, GOFLAGS="-mod=mod", GOPROXY="off", GOSUMDB="off")
for m in mods:
    p = subprocess.run(["go", "test", "-json", "-vet=off", "-count=1", "-timeout", "25m", "./..."],
                       cwd=os.path.join(repo, m), env=env, stdout=subprocess.PIPE, stderr=subprocess.DEVNULL, text=True)
    for line in p.stdout.split("\n"):
        try:
            e = json.loads(line)
        except Exception:
            continue
        if e.get("Test") and e.get("Action") in ("pass", "fail", "skip"):
            res["%s::%s" % (e["Package"], e["Test"])] = e["Action"]
subprocess.run(["git", "-C", repo, "checkout", "--", "pomelonet/go.mod", "pomelonet/go.sum", "apimapper/go.mod", "apimapper/go.sum", "utils/go.mod", "utils/go.sum", "go.mod", "go.sum"], stderr=subprocess.DEVNULL)
missing = sorted(t for t in want if res.get(t) != "pass")
print("baseline: %d/%d stable tests pass" % (len(want) - len(missing), len(want)))
for t in missing:
    print("  NOT PASSING:", t, res.get(t))
sys.exit(1 if missing else 0)
