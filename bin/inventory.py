#!/usr/bin/env python3
"""Prints a markdown inventory generated from the tree: theorems per property, hook and fix
commits in /repo, seeded changes and which checks caught them. Used for DESIGN.md appendix."""
import glob, json, os, re, subprocess
ROOT = os.path.dirname(os.path.dirname(os.path.abspath(__file__)))
out = []
out.append("### A.1 Theorems per property (from `coq/theories/Cxx/Props.v`)\n")
for d in sorted(glob.glob(os.path.join(ROOT, "coq/theories/C*"))):
    pid = os.path.basename(d)
    pv = os.path.join(d, "Props.v")
    if not os.path.exists(pv):
        continue
    src = re.sub(r"\(\*.*?\*\)", " ", open(pv).read(), flags=re.S)
    thms = re.findall(r"^\s*(?:Theorem|Lemma|Corollary)\s+(\w+)", src, flags=re.M)
    exs = re.findall(r"^\s*Example\s+(\w+)", src, flags=re.M)
    lines = sum(len(open(f).read().split("\n")) for f in glob.glob(os.path.join(d, "*.v")))
    out.append("* **%s** (%d lines of Coq): %s. Examples: %s." % (pid, lines, ", ".join("`%s`" % t for t in thms), ", ".join("`%s`" % e for e in exs) or "-"))
out.append("\n### A.2 Commits made in /repo\n")
log = subprocess.run(["git", "-C", "/repo", "log", "--reverse", "--format=%h %s"], capture_output=True, text=True).stdout.strip().split("\n")
for l in log:
    if l.split(" ", 1)[1].startswith(("fix:", "verif hook")):
        out.append("* `%s` %s" % tuple(l.split(" ", 1)))
out.append("\n### A.3 Known findings file\n")
for k in json.load(open(os.path.join(ROOT, "known_findings.json")))["findings"]:
    out.append("* %s %s [%s] %s" % (k["property"], k["id"], k["status"], k["what"]))
sd = os.path.join(ROOT, "seeded")
if os.path.isdir(sd):
    out.append("\n### A.4 Seeded changes\n")
    out.append("| id | property | needs | caught by | replay size |")
    out.append("|---|---|---|---|---|")
    for m in sorted(glob.glob(os.path.join(sd, "*", "meta.json"))):
        j = json.load(open(m))
        out.append("| %s | %s | %s | %s | %s |" % (os.path.basename(os.path.dirname(m)), j.get("property"), j.get("needs", "").replace("|", "/"), j.get("caught_by", ""), j.get("replay_ops", "")))
print("\n".join(out))
