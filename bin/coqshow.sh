#!/bin/sh
# usage: coqshow.sh <file.v> <line> [tailN] [headN] — shows the proof state just before <line>
f=$1; n=$2
d=$(mktemp -d)
head -n $((n-1)) "$f" > $d/T.v
echo "Show. " >> $d/T.v
(cd $d && timeout 120 coqc -Q /verif/coq/theories Cell2V T.v 2>&1 | tail -${3:-40} | head -${4:-1000})
rm -rf $d
