#!/usr/bin/env python3
"""seed_eval.py <PROP> <k> [--src /tmp/seed-out] : confirm an independently written breaking
change and run the property's check against it.

 1. scratch worktree of /repo HEAD, apply patch.diff
 2. the touched modules still build (with and without -tags verif), the touched packages'
    existing tests still pass
 3. the demonstration (run.sh <repo>) passes on /repo and fails on the changed tree
 4. python3 bin/check.py PROP --repo <worktree>: caught? how small is the replay?
 5. record everything in /verif/seeded/<PROP>-<k>/ (patch.diff, demonstration, meta.json)
 6. remove the worktree
"""
import json, os, re, shutil, subprocess, sys, time

ROOT = os.path.dirname(os.path.dirname(os.path.abspath(__file__)))
ENV = dict(os.environ, GOFLAGS="-mod=mod", GOPROXY="off", GOSUMDB="off", GOTOOLCHAIN="local")


def sh(cmd, cwd=None, timeout=1800):
    try:
        p = subprocess.run(cmd, shell=isinstance(cmd, str), cwd=cwd, env=ENV, stdout=subprocess.PIPE,
                           stderr=subprocess.STDOUT, text=True, timeout=timeout, errors="replace")
        return p.returncode, p.stdout
    except subprocess.TimeoutExpired as e:
        return 124, (e.stdout or "") if isinstance(e.stdout, str) else "timeout"


def module_of(path):
    for m in ("utils/", "apimapper/", "pomelonet/", "pomeloclient/", "functest/"):
        if path.startswith(m):
            return m.rstrip("/")
    if path.startswith("_projects/"):
        return None
    return "."


def main():
    prop, k = sys.argv[1], sys.argv[2]
    src = "/tmp/seed-out"
    if "--src" in sys.argv:
        src = sys.argv[sys.argv.index("--src") + 1]
    sdir = os.path.join(src, prop, k)
    patch = os.path.join(sdir, "patch.diff")
    wt = "/tmp/sv-%s-%s" % (prop, k)
    meta = {"property": prop, "seed": "%s-%s" % (prop, k), "ran": []}
    sh("git -C /repo worktree remove --force %s" % wt)
    rc, out = sh("git -C /repo worktree add -f %s HEAD" % wt)
    assert rc == 0, out
    try:
        rc, out = sh("git -C %s apply %s" % (wt, patch))
        meta["ran"].append("git apply patch.diff -> %d" % rc)
        if rc != 0:
            meta["confirmed"] = False
            meta["why"] = "patch does not apply: " + out[-300:]
            return finish(meta, sdir, prop, k)
        files = re.findall(r"^\+\+\+ b/(\S+)", open(patch).read(), flags=re.M)
        meta["files"] = files
        mods = sorted({module_of(f) for f in files} - {None})
        ok = True
        for m in mods:
            for tags in ("", "-tags verif"):
                if m == "pomelonet":
                    # pomelonet cannot build as its own module here; build it through the root module
                    rc, out = sh("go build %s github.com/dfklegend/cell2/pomelonet/... ./node/..." % tags, cwd=wt)
                else:
                    rc, out = sh("go build %s ./..." % tags, cwd=os.path.join(wt, m))
                meta["ran"].append("go build %s ./... in %s -> %d" % (tags, m, rc))
                ok = ok and rc == 0
        pkgs = sorted({(module_of(f), os.path.dirname(f)) for f in files if module_of(f) is not None})
        for m, d in pkgs:
            if "clusterproviders/etcd" in d:
                meta["ran"].append("go test %s skipped: needs a live etcd (hangs offline on the unchanged code too; not in the baseline)" % d)
                continue
            rel = os.path.relpath(d, m) if m != "." else d
            if m == "pomelonet":
                rc, out = sh("go test -vet=off -count=1 -timeout 20m github.com/dfklegend/cell2/%s/..." % d, cwd=wt)
            else:
                rc, out = sh("go test -vet=off -count=1 -timeout 20m ./%s/..." % rel, cwd=os.path.join(wt, m))
            fails = re.findall(r"^--- FAIL: (\S+)", out, flags=re.M)
            base = {"Test_Panic", "Test_AutoRound", "Test_Simple"}  # always_fail in BASELINE.json
            bad = [f for f in fails if f not in base]
            meta["ran"].append("go test ./%s/... in %s -> rc %d, failing: %s" % (rel, m, rc, fails or "none"))
            ok = ok and not bad and (rc == 0 or bool(fails))
        sh("git -C %s checkout -- go.mod go.sum utils/go.mod utils/go.sum apimapper/go.mod apimapper/go.sum pomelonet/go.mod pomelonet/go.sum" % wt)
        meta["builds_and_tests_pass"] = ok
        run = os.path.join(sdir, "run.sh")
        rc0, out0 = sh("bash %s /repo" % run, cwd=sdir, timeout=900)
        rc1, out1 = sh("bash %s %s" % (run, wt), cwd=sdir, timeout=900)
        sh("git -C /repo checkout -- go.mod go.sum utils/go.mod utils/go.sum apimapper/go.mod apimapper/go.sum pomelonet/go.mod pomelonet/go.sum")
        sh("git -C %s checkout -- go.mod go.sum utils/go.mod utils/go.sum apimapper/go.mod apimapper/go.sum pomelonet/go.mod pomelonet/go.sum" % wt)
        meta["ran"].append("run.sh /repo -> %d ; run.sh <changed> -> %d" % (rc0, rc1))
        meta["demo_unchanged_rc"], meta["demo_changed_rc"] = rc0, rc1
        meta["demo_changed_tail"] = out1.strip().split("\n")[-6:]
        meta["confirmed"] = bool(ok and rc0 == 0 and rc1 != 0)
        # the check
        t0 = time.time()
        rc, out = sh("python3 bin/check.py %s --repo %s" % (prop, wt), cwd=ROOT, timeout=3000)
        meta["ran"].append("python3 bin/check.py %s --repo <changed> -> %d in %.0fs" % (prop, rc, time.time() - t0))
        viol = re.findall(r"^VIOLATION property=\S+ replay=(\S+)(.*)$", out, flags=re.M)
        meta["check_rc"] = rc
        meta["caught"] = rc == 1 and bool(viol)
        meta["caught_by"] = ""
        if viol:
            rp = json.load(open(viol[0][0]))
            meta["caught_by"] = rp.get("kind", "") + viol[0][1]
            c = rp.get("cases") or []
            if c:
                ops = c[0]["ops"]
                meta["replay_ops"] = len(ops) if isinstance(ops, list) else "1 case"
                s = json.dumps(c[0])
                meta["replay_case"] = json.loads(s) if len(s) < 3000 else s[:3000] + "..."
            else:
                meta["replay_ops"] = "n/a"
                meta["replay_note"] = {k2: rp.get(k2) for k2 in ("proof_errors", "correspondence_error")}
            for v in viol:
                try:
                    os.remove(v[0])
                except OSError:
                    pass
        meta["check_tail"] = out.strip().split("\n")[-6:]
    finally:
        sh("git -C /repo worktree remove --force %s" % wt)
        shutil.rmtree(os.path.join(ROOT, ".build", "h-" + __import__("hashlib").sha1(wt.encode()).hexdigest()[:8]), ignore_errors=True)
    return finish(meta, sdir, prop, k)


def finish(meta, sdir, prop, k):
    dest = os.path.join(ROOT, "seeded", "%s-%s" % (prop, k))
    old = os.path.join(dest, "meta.json")
    if os.path.exists(old):
        try:
            oj = json.load(open(old))
            for keep in ("history", "confirm_note", "superseded_by_fix"):
                if keep in oj and keep not in meta:
                    meta[keep] = oj[keep]
            if oj.get("confirm_note"):
                meta["confirmed"] = meta.get("confirmed") or oj.get("confirmed")
        except Exception:
            pass
    if os.path.isdir(dest):
        shutil.rmtree(dest)
    shutil.copytree(sdir, dest)
    notes = os.path.join(sdir, "notes.md")
    if os.path.exists(notes):
        txt = open(notes).read()
        m = re.search(r"(?is)(needs?|manifest|trigger)[^\n]*\n(.{0,600})", txt)
        meta["needs"] = (m.group(0)[:400].replace("\n", " ") if m else "see notes.md")
    json.dump(meta, open(os.path.join(dest, "meta.json"), "w"), indent=1)
    print(json.dumps({k2: meta.get(k2) for k2 in ("seed", "confirmed", "builds_and_tests_pass", "demo_unchanged_rc",
                                                  "demo_changed_rc", "caught", "caught_by", "replay_ops")}))


if __name__ == "__main__":
    main()
