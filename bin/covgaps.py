#!/usr/bin/env python3
"""covgaps.py <PROP> [--tier quick]: run the property's check with --keep and list, per anchor
file, the functions with uncovered statements (name: covered/total).  A development aid."""
import json, os, re, subprocess, sys, glob
ROOT = os.path.dirname(os.path.dirname(os.path.abspath(__file__)))
P = sys.argv[1]
out = subprocess.run([sys.executable, os.path.join(ROOT, "bin/check.py"), P, "--tier", "quick", "--keep"],
                     capture_output=True, text=True).stdout
dirs = sorted(glob.glob(os.path.join(ROOT, ".build", "run-%s-*" % P)), key=os.path.getmtime)
if not dirs:
    sys.exit("no kept run dir\n" + out[-2000:])
d = dirs[-1]
txt = os.path.join(d, "cov", "cov.txt")
anch = []
for l in open(os.path.join(ROOT, "properties.jsonl")):
    j = json.loads(l)
    if j["id"] == P:
        anch = [f for f in j["anchors"]["files"] if f.endswith(".go")]
def ip(f):
    dd = os.path.dirname(f)
    if f.startswith("_projects/mmo/server/"):
        return "mmo/" + dd[len("_projects/mmo/server/"):] + "/" + os.path.basename(f)
    return "github.com/dfklegend/cell2/" + dd + "/" + os.path.basename(f)
want = {ip(f): f for f in anch}
blocks = {}
for line in open(txt):
    m = re.match(r"(\S+):(\d+)\.\d+,(\d+)\.\d+ (\d+) (\d+)", line)
    if m and m.group(1) in want:
        blocks.setdefault(want[m.group(1)], []).append((int(m.group(2)), int(m.group(3)), int(m.group(4)), int(m.group(5))))
for f, bs in sorted(blocks.items()):
    src = open(os.path.join("/repo", f)).read().split("\n")
    funcs = [(i + 1, re.match(r"func\s*(\([^)]*\)\s*)?(\w+)", l).group(2)) for i, l in enumerate(src) if re.match(r"func\s*(\([^)]*\)\s*)?(\w+)", l)]
    def fn(line):
        name = "?"
        for s, n in funcs:
            if s <= line:
                name = n
        return name
    per = {}
    for a, b, n, c in bs:
        k = fn(a)
        t = per.setdefault(k, [0, 0])
        t[1] += n
        t[0] += n if c > 0 else 0
    gaps = ["%s %d/%d" % (k, v[0], v[1]) for k, v in per.items() if v[0] < v[1]]
    print(f, ":", "; ".join(gaps) if gaps else "fully covered")
subprocess.run(["rm", "-rf", d])
