#!/bin/sh
# usage: run_all.sh quick|thorough  — runs every enabled check in sequence, prints a summary
tier=${1:-quick}
cd "$(dirname "$0")/.."
sh bin/setup.sh | tail -1
for p in $(python3 -c "import json;print(' '.join(json.load(open('bin/enabled.json'))))"); do
  s=$(date +%s)
  out=$(python3 bin/check.py $p --tier $tier 2>&1)
  rc=$?
  echo "$p rc=$rc $(( $(date +%s) - s ))s $(echo "$out" | grep -E 'cases=|proof stage' | tr '\n' ' ')"
  echo "$out" | grep -E '^VIOLATION|^KNOWN-FINDING|PROBLEM' | cut -c1-300
done
