#!/usr/bin/env python3
"""Regenerates MANIFEST.json from bin/props/*.py (claimed checks) and bin/not_applicable.json."""
import glob, importlib, json, os, sys
ROOT = os.path.dirname(os.path.dirname(os.path.abspath(__file__)))
sys.path.insert(0, os.path.join(ROOT, "bin"))
checks = []
ENABLED = set(json.load(open(os.path.join(ROOT, "bin", "enabled.json"))))
for f in sorted(glob.glob(os.path.join(ROOT, "bin", "props", "C*.py"))):
    P = importlib.import_module("props." + os.path.basename(f)[:-3])
    if getattr(P, "DISABLED", False) or P.ID not in ENABLED:
        continue
    checks.append({
        "property_id": P.ID,
        "quick_cmd": "python3 bin/check.py %s --tier quick" % P.ID,
        "thorough_cmd": "python3 bin/check.py %s --tier thorough" % P.ID,
        "evidence_file": "/verif/evidence/%s.json" % P.ID,
        "replay_cmd_template": "python3 bin/check.py %s --replay {path}" % P.ID,
        "engine": "coq-proof+correspondence",
        "level_claimed": {"category": "proof", "text": P.LEVEL_TEXT, "design_ref": "DESIGN.md section 6, %s" % P.ID},
        "level_note": "; ".join(P.TRUSTED_BASE + P.ASSUMPTIONS),
        "technique": P.TECHNIQUE,
    })
claimed = {c["property_id"] for c in checks}
na = []
nap = os.path.join(ROOT, "bin", "not_applicable.json")
allp = [json.loads(l)["id"] for l in open(os.path.join(ROOT, "properties.jsonl")) if l.strip()]
reasons = json.load(open(nap)) if os.path.exists(nap) else {}
for pid in allp:
    if pid not in claimed:
        na.append({"property_id": pid, "reason": reasons.get(pid, "not yet covered by a Coq model + correspondence check in this revision (work in progress; see DESIGN.md)")})
mods = ". ./apimapper ./functest ./pomeloclient ./pomelonet ./utils"
m = {
    "version": 1,
    "setup_cmd": "sh bin/setup.sh",
    "hooks": {
        "guard": "verif",
        "enable": "go build -tags verif (harness module with replace => /repo; see bin/check.py harness_build)",
        "baseline_off_cmd": "for m in %s; do (cd /repo/$m && GOFLAGS=-mod=mod go test -json -vet=off -count=1 -timeout 25m ./...); done" % mods,
        "source_commits": json.load(open(os.path.join(ROOT, "bin", "hook_commits.json"))) if os.path.exists(os.path.join(ROOT, "bin", "hook_commits.json")) else [],
        "add_only": True,
    },
    "engines": [{
        "name": "coq-proof+correspondence", "path": "/verif/bin/check.py",
        "serves_properties": sorted(claimed),
        "kind_free_text": "Coq 8.16.1 theorems about hand-written Gallina models (coq/theories/Cxx/{Model,Spec,Proofs,Props}.v); models tied to /repo on every run by a differential correspondence check: Go harness (build tag verif, replace => /repo) runs the real code, coqc evaluates the model and the property monitor on the same histories with vm_compute",
    }],
    "checks": checks,
    "not_applicable": na,
    "notes": "All checks claim level proof; see DESIGN.md for the partial labels and the trusted base. Set CELL2_REPO or --repo to point a check at a scratch worktree (evidence is only written for /repo).",
}
json.dump(m, open(os.path.join(ROOT, "MANIFEST.json"), "w"), indent=1)
print("MANIFEST.json: %d checks, %d not_applicable" % (len(checks), len(na)))
