#!/usr/bin/env python3
"""Regenerate coq/_CoqProject + coq/Makefile from the directory listing, then `make <targets>`."""
import os, subprocess, sys
sys.path.insert(0, os.path.dirname(os.path.abspath(__file__)))
sys.argv, args = [sys.argv[0]], sys.argv[1:]
import check
with check.Lock("coq"):
    if check.gen_coqproject() or not os.path.exists(os.path.join(check.COQ, "Makefile")):
        subprocess.run(["coq_makefile", "-f", "_CoqProject", "-o", "Makefile"], cwd=check.COQ, check=True)
sys.exit(subprocess.run(["make", "-k", "-j16"] + args, cwd=check.COQ).returncode)
