#!/bin/sh
# usage: apply_hook.sh <patch> ["commit message"] — applies the patch to /repo as its own commit.
# Message = 2nd argument, or the first line of the patch file; "fix(...)": is normalised to "fix:".
set -e
p=$(readlink -f "$1")
msg=${2:-$(head -1 "$p")}
msg=$(printf '%s' "$msg" | sed -E 's/^fix\(([^)]*)\): /fix: \1: /; s/^hook\(([^)]*)\): /verif hook: \1: /; s/^verif hook \(/verif hook: (/')
case "$msg" in fix:*|"verif hook"*) ;; *) echo "bad message for $p: $msg"; exit 1;; esac
shift; [ $# -gt 0 ] && shift
git -C /repo apply --index "$@" "$p"
git -C /repo commit -q -m "$msg"
echo "committed $(git -C /repo rev-parse --short HEAD) $(printf '%s' "$msg" | cut -c1-120)"
