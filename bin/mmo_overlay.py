#!/usr/bin/env python3
"""mmo_overlay.py - regenerate the scratch Go module `mmo` used by C18-C20 (DESIGN 4.4).

`/repo/_projects/mmo/server` is its own module `mmo` whose go.mod does not resolve
offline.  `build(repo, dest, packages)` therefore writes, on EVERY call and from the
CURRENT text of `<repo>/_projects/mmo/server`, a module named `mmo` under `<dest>/mmo`:

  * verbatim copies of the requested packages.  A package spec is
        "servers/scene/space"                 every non-test .go file of that directory
        "servers/scene/define:common.go,unit.go"   only the named files (the rest of the
                                              package drags in code that is not available)
  * stub packages / stub supplement files from /verif/harness_mmo/overlay_stubs/<pkg>/
    for every `mmo/...` import of a copied file that is not itself copied, and for every
    subset-copied package that has a stub directory (the stub then supplies the
    declarations of the files that were left out);
  * white-box harness files /verif/harness_mmo/whitebox/<pkg>/verif_*.go, copied INTO the
    copied package <pkg> (same Go package, so they can read unexported state);
  * a go.mod (`module mmo`) whose requirements are taken from <repo>/go.mod.

Stub files may carry lines   //verif:mirror <file relative to the mmo module> type <Name>
The declaration `type <Name> ...` of the stub is then compared (comments and white space
removed) with the declaration in the named file of the CURRENT repo; a difference is an
error, so an interface stub cannot silently drift from the code it stands for.

Everything that goes wrong is returned as an error string (never an exception) so that
bin/check.py reports it as a broken correspondence.

CLI (development convenience; creates the directory the committed harness_mmo/go.mod
points to):   python3 bin/mmo_overlay.py [--repo /repo] [--dest .build/mmo-default] [pkg ...]
"""
import os, re, shutil, subprocess, sys

ROOT = os.path.dirname(os.path.dirname(os.path.abspath(__file__)))
HARNESS_MMO = os.path.join(ROOT, "harness_mmo")
STUBS = os.path.join(HARNESS_MMO, "overlay_stubs")
WHITEBOX = os.path.join(HARNESS_MMO, "whitebox")
MMO_REL = os.path.join("_projects", "mmo", "server")
MMO_SUM = os.path.join(MMO_REL, "go.sum")          # for bin/props/Cxx.py EXTRA_SUMS
CELL2 = "github.com/dfklegend/cell2"
CELL2_MODS = [CELL2, CELL2 + "/apimapper", CELL2 + "/pomelonet", CELL2 + "/utils"]
ZERO = "v0.0.0-00010101000000-000000000000"

# package lists of the properties that use the overlay (one place, so that a new property
# is one more entry; see harness_mmo/README.md)
PACKAGES = {
    "C20": [
        "libs/simonwittber/go-vector",
        "common/entity",
        "common/entity/impl",
        "servers/scene/define:common.go,unit.go",        # + stub supplement (ISpace, ISearcher)
        "servers/scene/entity/define:baseunit.go,names.go",
        "servers/scene/space",
        "servers/scene/space/factory",
        "servers/scene/space/searchers:findplayers.go",
    ],
    "C19": [
        "libs/simonwittber/go-vector",
        "common/define",
        "common/config",
        "messages",
        "messages/cproto",
        "servers/scenem",
    ],
    "C18": [
        "libs/simonwittber/go-vector",
        "common/define",
        "common:statewithtimeout.go",
        "messages",
        "messages/cproto",
        "servers/center",
        "servers/center/handler",
    ],
}

GOENV = dict(os.environ, GOFLAGS="-mod=mod", GOPROXY="off", GOSUMDB="off", GOTOOLCHAIN="local",
             CGO_ENABLED=os.environ.get("CGO_ENABLED", "0"))


def _go_files(d):
    return sorted(f for f in os.listdir(d)
                  if f.endswith(".go") and not f.endswith("_test.go") and os.path.isfile(os.path.join(d, f)))


def _imports(src):
    """import paths of a Go source text"""
    src = re.sub(r"/\*.*?\*/", " ", src, flags=re.S)
    out = []
    for m in re.finditer(r"^import\s*\((.*?)^\)", src, flags=re.S | re.M):
        for line in m.group(1).split("\n"):
            line = line.split("//")[0]
            q = re.search(r'"([^"]+)"', line)
            if q:
                out.append(q.group(1))
    for m in re.finditer(r'^import\s+(?:[\w.]+\s+)?"([^"]+)"', src, flags=re.M):
        out.append(m.group(1))
    return out


def _decl(src, name):
    """text of the top-level declaration `type <name> ...`, normalised; None if absent"""
    lines = src.split("\n")
    for i, line in enumerate(lines):
        if re.match(r"type\s+%s\b" % re.escape(name), line):
            block = [line]
            if line.split("//")[0].rstrip().endswith("{"):
                for l2 in lines[i + 1:]:
                    block.append(l2)
                    if l2.startswith("}"):
                        break
            norm = []
            for b in block:
                b = re.sub(r"\s+", " ", b.split("//")[0]).strip()
                if b:
                    norm.append(b)
            return "\n".join(norm)
    return None


def _parse_spec(spec):
    if ":" in spec:
        pkg, fs = spec.split(":", 1)
        return pkg.strip("/"), [f for f in fs.split(",") if f]
    return spec.strip("/"), None


def _repo_versions(repo):
    """module path -> version from <repo>/go.mod (require lines)"""
    vers = {}
    try:
        txt = open(os.path.join(repo, "go.mod")).read()
    except OSError:
        return vers
    for m in re.finditer(r"^\s*(?:require\s+)?([\w./\-!]+\.[\w./\-!]+)\s+(v[\w.\-+]+)", txt, flags=re.M):
        vers[m.group(1)] = m.group(2)
    return vers


def build(repo, dest, packages):
    """Regenerate <dest>/mmo.  Returns a dict:
         error     None or a string (the overlay must then not be used)
         copied    ["servers/scene/space/zonespace.go", ...]      verbatim from the repo
         stubbed   ["servers/scene/define/stub_space.go", ...]    from overlay_stubs
         whitebox  ["servers/scenem/verif_c19.go", ...]
         mirrors   ["servers/scene/define/scene.go type ISpace", ...]   stub declarations
                   checked to be textually identical to the current code
         packages  import paths of all overlay packages (for a compile check)"""
    rep = {"error": None, "copied": [], "stubbed": [], "whitebox": [], "mirrors": [], "packages": []}
    src_root = os.path.join(repo, MMO_REL)
    mod = os.path.join(dest, "mmo")
    try:
        if not os.path.isdir(src_root):
            rep["error"] = "overlay: %s does not exist" % src_root
            return rep
        shutil.rmtree(mod, ignore_errors=True)
        os.makedirs(mod)
        whole, partial = set(), set()
        ext_imports = set()
        pending = []      # (pkg, path of a file in the overlay) whose imports must be resolved

        def put(srcp, pkg, name, kind):
            d = os.path.join(mod, pkg)
            os.makedirs(d, exist_ok=True)
            dst = os.path.join(d, name)
            if os.path.exists(dst):
                return "overlay: %s/%s would be written twice (%s)" % (pkg, name, kind)
            shutil.copyfile(srcp, dst)
            rep[kind].append(pkg + "/" + name)
            pending.append((pkg, dst))
            return None

        for spec in packages:
            pkg, files = _parse_spec(spec)
            sdir = os.path.join(src_root, pkg)
            if not os.path.isdir(sdir):
                rep["error"] = "overlay: package directory %s/%s no longer exists" % (MMO_REL, pkg)
                return rep
            names = files if files is not None else _go_files(sdir)
            if not names:
                rep["error"] = "overlay: no Go files in %s/%s" % (MMO_REL, pkg)
                return rep
            for n in names:
                p = os.path.join(sdir, n)
                if not os.path.isfile(p):
                    rep["error"] = "overlay: anchor file %s/%s/%s no longer exists" % (MMO_REL, pkg, n)
                    return rep
                err = put(p, pkg, n, "copied")
                if err:
                    rep["error"] = err
                    return rep
            (whole if files is None else partial).add(pkg)

        stub_done = set()

        def add_stub(pkg):
            if pkg in stub_done:
                return None
            stub_done.add(pkg)
            sd = os.path.join(STUBS, pkg)
            for n in _go_files(sd):
                err = put(os.path.join(sd, n), pkg, n, "stubbed")
                if err:
                    return err
            return None

        for pkg in sorted(partial):
            if os.path.isdir(os.path.join(STUBS, pkg)):
                err = add_stub(pkg)
                if err:
                    rep["error"] = err
                    return rep

        while pending:
            pkg, path = pending.pop()
            for imp in _imports(open(path, encoding="utf-8").read()):
                if imp == "mmo" or imp.startswith("mmo/"):
                    ip = imp[4:]
                    if ip in whole or ip in stub_done:
                        continue
                    if os.path.isdir(os.path.join(STUBS, ip)):
                        err = add_stub(ip)
                        if err:
                            rep["error"] = err
                            return rep
                        continue
                    if ip in partial:
                        continue
                    rep["error"] = ("overlay: %s imports %s, which is neither in the package list nor stubbed under "
                                    "harness_mmo/overlay_stubs/%s" % (os.path.relpath(path, mod), imp, ip))
                    return rep
                elif "." in imp.split("/")[0]:
                    ext_imports.add(imp)

        # white-box harness files go into copied packages only
        if os.path.isdir(WHITEBOX):
            for d, _, fs in os.walk(WHITEBOX):
                pkg = os.path.relpath(d, WHITEBOX)
                if pkg not in whole and pkg not in partial:
                    continue
                for n in sorted(fs):
                    if not n.endswith(".go"):
                        continue
                    if not n.startswith("verif_"):
                        rep["error"] = "overlay: white-box file %s/%s must be named verif_*.go" % (pkg, n)
                        return rep
                    err = put(os.path.join(d, n), pkg, n, "whitebox")
                    if err:
                        rep["error"] = err
                        return rep
                    for imp in _imports(open(os.path.join(d, n), encoding="utf-8").read()):
                        if "." in imp.split("/")[0]:
                            ext_imports.add(imp)

        # mirrored declarations
        for rel in rep["stubbed"]:
            stxt = open(os.path.join(mod, rel), encoding="utf-8").read()
            for m in re.finditer(r"^//verif:mirror\s+(\S+)\s+type\s+(\w+)\s*$", stxt, flags=re.M):
                rfile, name = m.group(1), m.group(2)
                rp = os.path.join(src_root, rfile)
                if not os.path.isfile(rp):
                    rep["error"] = "overlay: stub %s mirrors %s, which no longer exists" % (rel, rfile)
                    return rep
                a, b = _decl(stxt, name), _decl(open(rp, encoding="utf-8").read(), name)
                if a is None or b is None or a != b:
                    rep["error"] = ("overlay: stub %s: `type %s` differs from the declaration in %s/%s "
                                    "(update the stub)\n--- stub\n%s\n--- code\n%s" % (rel, name, MMO_REL, rfile, a, b))
                    return rep
                rep["mirrors"].append("%s type %s" % (rfile, name))

        # go.mod
        vers = _repo_versions(repo)
        req = {}
        for m in CELL2_MODS:
            req[m] = ZERO
        for imp in sorted(ext_imports):
            if imp == CELL2 or imp.startswith(CELL2 + "/"):
                continue
            parts = imp.split("/")
            for k in range(len(parts), 0, -1):
                cand = "/".join(parts[:k])
                if cand in vers:
                    req[cand] = vers[cand]
                    break
            else:
                rep["error"] = ("overlay: import %s is not provided by any module required in %s/go.mod "
                                "(not available offline): stub the importing package" % (imp, repo))
                return rep
        with open(os.path.join(mod, "go.mod"), "w") as f:
            f.write("// GENERATED by /verif/bin/mmo_overlay.py - do not edit\nmodule mmo\n\ngo 1.21\n\nrequire (\n")
            for k in sorted(req):
                f.write("\t%s %s\n" % (k, req[k]))
            f.write(")\n")
        pk = set(os.path.dirname(r) for r in rep["copied"] + rep["stubbed"])
        rep["packages"] = sorted("mmo/" + p for p in pk)
        for k in ("copied", "stubbed", "whitebox", "mirrors"):
            rep[k] = sorted(rep[k])
        return rep
    except Exception as e:  # never let the overlay crash the check
        rep["error"] = "overlay: %s: %s" % (type(e).__name__, e)
        return rep


def compile_check(repo, bdir, rep, tag="mmo-overlay"):
    """`go build` of every overlay package in the context of the harness_mmo module
    (same replaces as the harness build).  Returns None or an error string."""
    tmpl = open(os.path.join(HARNESS_MMO, "go.mod.tmpl")).read().replace("@REPO@", repo).replace("@BDIR@", bdir)
    modfile = os.path.join(bdir, tag + ".mod")
    open(modfile, "w").write(tmpl)
    sums = ""
    for p in (os.path.join(repo, "go.sum"), os.path.join(repo, MMO_SUM)):
        if os.path.exists(p):
            sums += open(p).read()
    open(os.path.join(bdir, tag + ".sum"), "w").write(sums)
    try:
        p = subprocess.run(["go", "build", "-modfile=" + modfile, "-tags", "verif"] + rep["packages"],
                           cwd=HARNESS_MMO, env=GOENV, timeout=600, stdout=subprocess.PIPE,
                           stderr=subprocess.STDOUT, text=True, errors="replace")
    except subprocess.TimeoutExpired:
        return "overlay: compile check timed out"
    if p.returncode != 0:
        return ("overlay: the copied mmo files no longer compile against the stubs "
                "(harness_mmo/overlay_stubs) - the correspondence is broken:\n"
                + "\n".join(p.stdout.strip().split("\n")[-30:]))
    return None


def prepare(prop, repo, bdir):
    """what bin/props/Cxx.py prepare_build calls: regenerate + compile-check.
    Returns None or an error string.  The last report is kept in LAST[prop]."""
    rep = build(repo, bdir, PACKAGES[prop])
    LAST[prop] = rep
    if rep["error"]:
        return rep["error"]
    return compile_check(repo, bdir, rep)


LAST = {}


def describe(prop, repo="/repo"):
    """static description for TRUSTED_BASE (does not touch the file system outside a temp dir)"""
    import tempfile
    d = tempfile.mkdtemp(prefix="mmo-desc-")
    try:
        rep = build(repo, d, PACKAGES[prop])
    finally:
        shutil.rmtree(d, ignore_errors=True)
    return rep


if __name__ == "__main__":
    import argparse
    ap = argparse.ArgumentParser()
    ap.add_argument("--repo", default="/repo")
    ap.add_argument("--dest", default=os.path.join(ROOT, ".build", "mmo-default"))
    ap.add_argument("--check", action="store_true", help="also compile the overlay packages")
    ap.add_argument("packages", nargs="*")
    a = ap.parse_args()
    pk = a.packages
    if not pk:
        seen = []
        for l in PACKAGES.values():
            for s in l:
                if s not in seen:
                    seen.append(s)
        pk = seen
    elif len(pk) == 1 and pk[0] in PACKAGES:
        pk = PACKAGES[pk[0]]
    os.makedirs(a.dest, exist_ok=True)
    r = build(a.repo, a.dest, pk)
    for k in ("copied", "stubbed", "whitebox", "mirrors"):
        print("%s:" % k)
        for x in r[k]:
            print("   ", x)
    if r["error"]:
        print(r["error"])
        sys.exit(1)
    if a.check:
        e = compile_check(a.repo, a.dest, r)
        if e:
            print(e)
            sys.exit(1)
    print("ok:", os.path.join(a.dest, "mmo"))
