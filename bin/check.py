#!/usr/bin/env python3
"""check.py <PROP> [--tier quick|thorough] [--replay FILE] [--repo DIR] [--n N]

Decides one cell2 property:
  1. proof stage   - (re)build the Coq development, re-check the property's Props.v and
                     count the theorems whose assumption report was printed; text audit.
  2. tie           - build the Go harness against the *current* working tree of the repo
                     (build tag verif) and run the real code on generated histories.
  3. correspondence- evaluate the model (vm_compute inside coqc) on the same histories and
                     compare projected observables; run the property monitor on the
                     implementation's own traces.
  4. verdict       - exit 0, or print `VIOLATION property=<id> replay=<path>` and exit 1.
Writes evidence/<PROP>.json on every run.
"""
import argparse, fcntl, hashlib, importlib, json, os, re, shutil, subprocess, sys, tempfile, time
from concurrent.futures import ThreadPoolExecutor

ROOT = os.path.dirname(os.path.dirname(os.path.abspath(__file__)))
COQ = os.path.join(ROOT, "coq")
HARNESS = os.path.join(ROOT, "harness")
BUILD = os.path.join(ROOT, ".build")
EVID = os.path.join(ROOT, "evidence")
REPLAYS = os.path.join(EVID, "replays")
sys.path.insert(0, os.path.join(ROOT, "bin"))

GOENV = dict(os.environ, GOFLAGS="-mod=mod", GOPROXY="off", GOSUMDB="off", GOTOOLCHAIN="local",
             CGO_ENABLED=os.environ.get("CGO_ENABLED", "0"))

FORBIDDEN = re.compile(
    r"\b(Admitted|admit|Axiom|Axioms|Parameter|Parameters|Conjecture|Conjectures|Admit Obligations|"
    r"Unset Guard Checking|Unset Positivity Checking|Unset Universe Checking|bypass_check|"
    r"type-in-type|impredicative-set|native_compute)\b")


AUDIT_EXTRA = {"C09": ("C09ring", "C09disp", "C03")}


def log(*a):
    print("[check]", *a, flush=True)


class Lock:
    def __init__(self, name):
        os.makedirs(BUILD, exist_ok=True)
        self.path = os.path.join(BUILD, name + ".lock")

    def __enter__(self):
        self.f = open(self.path, "w")
        fcntl.flock(self.f, fcntl.LOCK_EX)

    def __exit__(self, *a):
        fcntl.flock(self.f, fcntl.LOCK_UN)
        self.f.close()


def run(cmd, timeout, cwd=None, env=None, quiet=True):
    try:
        p = subprocess.run(cmd, cwd=cwd, env=env, timeout=timeout, stdout=subprocess.PIPE,
                           stderr=subprocess.STDOUT, text=True, errors="replace")
        return p.returncode, p.stdout
    except subprocess.TimeoutExpired as e:
        out = e.stdout if isinstance(e.stdout, str) else (e.stdout or b"").decode(errors="replace")
        return 124, out + "\n[timeout after %ss]" % timeout


# ---------------------------------------------------------------- JSON term -> Coq term
def coq_term(v):
    if isinstance(v, bool):
        return "true" if v else "false"
    if isinstance(v, int):
        return str(v) if v >= 0 else "(%d)" % v
    if isinstance(v, str):
        return v
    if isinstance(v, list):
        return "[" + "; ".join(coq_term(x) for x in v) + "]"
    if isinstance(v, dict):
        (k, a), = v.items()
        if k == "":
            return "(" + ", ".join(coq_term(x) for x in a) + ")"
        if not a:
            return k
        return "(" + k + " " + " ".join(coq_term(x) for x in a) + ")"
    raise ValueError("coq_term: %r" % (v,))


# ---------------------------------------------------------------- proof stage
def text_audit(prop=None):
    bad = []
    for d, _, fs in os.walk(os.path.join(COQ, "theories")):
        if prop and os.path.basename(d) not in (prop, "Common") + tuple(AUDIT_EXTRA.get(prop, ())):
            continue
        for f in fs:
            if not f.endswith(".v"):
                continue
            p = os.path.join(d, f)
            src = open(p, encoding="utf-8").read()
            src_nc = re.sub(r"\(\*.*?\*\)", " ", src, flags=re.S)
            depth = 0
            for ln, line in enumerate(src_nc.split("\n"), 1):
                if re.match(r"\s*Section\b", line):
                    depth += 1
                if re.match(r"\s*End\b", line) and depth > 0:
                    depth -= 1
                m = FORBIDDEN.search(line)
                if m:
                    bad.append("%s:%d: %s" % (p, ln, m.group(0)))
                if depth == 0 and re.match(r"\s*(Variable|Variables|Hypothesis|Hypotheses|Context)\b", line):
                    bad.append("%s:%d: %s outside a Section" % (p, ln, line.strip().split()[0]))
    proj = open(os.path.join(COQ, "_CoqProject")).read()
    if re.search(r"-(vos|vok|type-in-type|impredicative-set)", proj):
        bad.append("_CoqProject: forbidden flag")
    return bad


def gen_coqproject():
    """_CoqProject is generated from the directory listing (coqdep orders the files)."""
    files = []
    for d, _, fs in os.walk(os.path.join(COQ, "theories")):
        for f in fs:
            if f.endswith(".v"):
                files.append(os.path.relpath(os.path.join(d, f), COQ))
    txt = "-Q theories Cell2V\n" + "\n".join(sorted(files)) + "\n"
    p = os.path.join(COQ, "_CoqProject")
    if not os.path.exists(p) or open(p).read() != txt:
        open(p, "w").write(txt)
        return True
    return False


def coq_build(clean=False, timeout=1500, targets=None):
    with Lock("coq"):
        changed = gen_coqproject()
        if not os.path.exists(os.path.join(COQ, "Makefile")) or clean or changed:
            rc, out = run(["coq_makefile", "-f", "_CoqProject", "-o", "Makefile"], 60, cwd=COQ)
            if rc != 0:
                return rc, out
        if clean:
            run(["make", "clean"], 120, cwd=COQ)
        rc, out = run(["make", "-k", "-j16"] + (targets or []), timeout, cwd=COQ)
        return rc, out


def proof_stage(P, tier):
    """returns dict(obligations, discharged, assumptions, errors, checker_cmd)"""
    res = {"obligations": 0, "discharged": 0, "assumptions": [], "errors": [], "theorems": []}
    audit = text_audit(P.ID)
    if audit:
        res["errors"].append("text audit: " + "; ".join(audit[:5]))
    rc, out = coq_build(targets=["theories/%s/Props.vo" % P.ID, "theories/%s/Corr.vo" % P.ID])
    propdir = os.path.join(COQ, "theories", P.ID)
    need = [os.path.join(propdir, "Props.vo"), os.path.join(propdir, "Corr.vo")]
    missing = [n for n in need if not os.path.exists(n)]
    if missing:
        res["errors"].append("coq build failed: " + " ".join(os.path.relpath(m, ROOT) for m in missing)
                             + "\n" + "\n".join(out.strip().split("\n")[-25:]))
    # Re-check Props.v itself on every run so the assumption reports are this run's.
    props_v = os.path.join(propdir, "Props.v")
    if not os.path.exists(props_v):
        res["errors"].append("no Props.v")
        return res
    src = re.sub(r"\(\*.*?\*\)", " ", open(props_v).read(), flags=re.S)
    thms = re.findall(r"^\s*(?:Theorem|Lemma|Corollary)\s+(\w+)", src, flags=re.M)
    res["theorems"] = thms
    res["obligations"] = len(thms)
    res["checker_cmd"] = "make -C coq -k -j16 && (cd coq && coqc -Q theories Cell2V theories/%s/Props.v)" % P.ID
    if not missing:
        tmpd = tempfile.mkdtemp(prefix="props-%s-" % P.ID, dir=BUILD)
        shutil.copyfile(props_v, os.path.join(tmpd, "Props.v"))
        rc2, out2 = run(["coqc", "-Q", os.path.join(COQ, "theories"), "Cell2V", "Props.v"], 900, cwd=tmpd)
        shutil.rmtree(tmpd, ignore_errors=True)
        if rc2 != 0:
            res["errors"].append("coqc Props.v failed:\n" + "\n".join(out2.strip().split("\n")[-25:]))
        else:
            closed = out2.count("Closed under the global context")
            axioms = re.findall(r"^Axioms:\n((?:.+\n)+?)(?=\S|\Z)", out2, flags=re.M)
            ax_names = sorted(set(re.findall(r"^(\S+)\s*:", "\n".join(axioms), flags=re.M)))
            res["assumptions"] = ax_names
            res["discharged"] = min(len(thms), closed + len(axioms))
            if closed + len(axioms) < len(thms):
                res["errors"].append("only %d assumption reports for %d theorems" % (closed + len(axioms), len(thms)))
    if tier == "thorough" and not res["errors"] and os.environ.get("VERIF_COQCHK", "1") == "1":
        t0 = time.time()
        with Lock("coq"):
            rc3, out3 = run(["coqchk", "-silent", "-o", "-Q", "theories", "Cell2V",
                             "Cell2V.%s.Props" % P.ID], 3000, cwd=COQ)
        res["coqchk_s"] = round(time.time() - t0, 1)
        res["coqchk_rc"] = rc3
        tail = out3.strip().split("\n")[-40:]
        res["coqchk_tail"] = tail
        if rc3 != 0:
            res["errors"].append("coqchk failed: " + "\n".join(tail[-10:]))
        res["checker_cmd"] += " && coqchk -silent -o -Q theories Cell2V Cell2V.%s.Props" % P.ID
    return res


# ---------------------------------------------------------------- harness
def harness_build(repo, P):
    """build vh (or the mmo variant) against `repo`; returns (binary, error)"""
    tag = hashlib.sha1(repo.encode()).hexdigest()[:8]
    bdir = os.path.join(BUILD, "h-" + tag)
    os.makedirs(bdir, exist_ok=True)
    with Lock("go-" + tag):
        if hasattr(P, "prepare_build"):
            err = P.prepare_build(repo, bdir)
            if err:
                return None, err
        modsrc = getattr(P, "HARNESS_DIR", HARNESS)
        tmpl = open(os.path.join(modsrc, "go.mod.tmpl")).read().replace("@REPO@", repo)
        tmpl = tmpl.replace("@BDIR@", bdir)
        name = getattr(P, "HARNESS_BIN", P.ID.lower())
        modfile = os.path.join(bdir, name + ".mod")
        if not os.path.exists(modfile) or open(modfile).read().split("\nrequire (")[0] != tmpl.split("\nrequire (")[0]:
            open(modfile, "w").write(tmpl)
        sums = open(os.path.join(repo, "go.sum")).read()
        for extra in getattr(P, "EXTRA_SUMS", []):
            ep = os.path.join(repo, extra)
            if os.path.exists(ep):
                sums += open(ep).read()
        open(os.path.join(bdir, name + ".sum"), "w").write(sums)
        binp = os.path.join(bdir, name)
        cover = cover_pkgs(P)
        # the main package must be instrumented too, otherwise no counters are written at exit
        cflags = ["-cover", "-covermode=atomic", "-coverpkg=" + ",".join(cover + ["./cmd/" + name])] if cover else []
        rc, out = run(["go", "build", "-modfile=" + modfile, "-tags", "verif"] + cflags + ["-o", binp, "./cmd/" + name],
                      900, cwd=modsrc, env=GOENV)
        if rc != 0 and cflags:
            # never let the coverage instrumentation stand between the check and the code
            rc, out = run(["go", "build", "-modfile=" + modfile, "-tags", "verif", "-o", binp, "./cmd/" + name],
                          900, cwd=modsrc, env=GOENV)
        if rc != 0:
            return None, "go build failed:\n" + "\n".join(out.strip().split("\n")[-30:])
        return binp, None


def anchor_files(P):
    for l in open(os.path.join(ROOT, "properties.jsonl")):
        if l.strip():
            j = json.loads(l)
            if j["id"] == getattr(P, "ANCHOR_ID", P.ID):
                return [f for f in j["anchors"]["files"] if f.endswith(".go")]
    return []


def import_path(f):
    d = os.path.dirname(f)
    if f.startswith("_projects/mmo/server/"):
        return "mmo/" + d[len("_projects/mmo/server/"):]
    return "github.com/dfklegend/cell2/" + d


def cover_pkgs(P):
    if getattr(P, "NO_COVER", False) or os.environ.get("VERIF_NOCOVER") == "1":
        return []
    return sorted({import_path(f) for f in anchor_files(P)} | set(getattr(P, "COVER_EXTRA", [])))


def coverage_report(P, covdir):
    """statement coverage of the property's anchor files by this run's harness execution"""
    if not os.path.isdir(covdir) or not os.listdir(covdir):
        return None
    txt = os.path.join(covdir, "cov.txt")
    rc, out = run(["go", "tool", "covdata", "textfmt", "-i=" + covdir, "-o", txt], 120, env=GOENV)
    if rc != 0 or not os.path.exists(txt):
        return None
    want = {import_path(f) + "/" + os.path.basename(f): f for f in anchor_files(P)}
    tot, cov = {}, {}
    for line in open(txt):
        m = re.match(r"(\S+):\d+\.\d+,\d+\.\d+ (\d+) (\d+)", line)
        if not m or m.group(1) not in want:
            continue
        f = want[m.group(1)]
        n, c = int(m.group(2)), int(m.group(3))
        tot[f] = tot.get(f, 0) + n
        cov[f] = cov.get(f, 0) + (n if c > 0 else 0)
    return {f: {"statements": tot[f], "covered": cov[f], "percent": round(100.0 * cov[f] / tot[f], 1) if tot[f] else 0.0}
            for f in sorted(tot)}


def harness_run(binp, P, args, out_jsonl, scratch, timeout):
    cmd = [binp, P.ID, "--out", out_jsonl, "--scratch", scratch] + args
    env = dict(os.environ)
    covdir = os.path.join(scratch, "cov")
    os.makedirs(covdir, exist_ok=True)
    env["GOCOVERDIR"] = covdir
    rc, out = run(cmd, timeout, cwd=scratch, env=env)
    if rc != 0 and os.environ.get("VERIF_NOCONFIRM") != "1":
        # a harness that dies (a watchdog under machine load, a port clash) is re-run once; a
        # deterministic failure fails again and is reported
        log("harness exit %d, running it once more: %s" % (rc, out.strip().split("\n")[-1][:200] if out.strip() else ""))
        rc, out = run(cmd, timeout, cwd=scratch, env=env)
    return rc, out


def load_cases(path):
    cs = []
    with open(path) as f:
        for line in f:
            line = line.strip()
            if line:
                cs.append(json.loads(line))
    return cs


# ---------------------------------------------------------------- model evaluation
def write_cases_v(P, cases, path):
    imports = getattr(P, "COQ_IMPORTS", "From Cell2V Require Import Common.Tac %s.Model %s.Corr." % (P.ID, P.ID))
    with open(path, "w") as f:
        f.write(imports + "\n")
        f.write("Definition cases : list case := [\n")
        f.write(";\n".join("  (%s, %s)" % (coq_term(c["ops"]), coq_term(c["obs"])) for c in cases))
        f.write("\n].\n")
        f.write("Definition dis := Eval vm_compute in disagreeing cases.\n")
        f.write("Definition mon := Eval vm_compute in monitor_failing cases.\n")
        f.write("Print dis.\nPrint mon.\n")


def parse_idx(out, name):
    m = re.search(r"^%s\s*=\s*(.*?)\n\s*:\s*list Z" % name, out, flags=re.S | re.M)
    if not m:
        return None
    return [int(x) for x in re.findall(r"-?\d+", m.group(1))]


def eval_shard(P, cases, workdir, k):
    path = os.path.join(workdir, "cases_%d.v" % k)
    write_cases_v(P, cases, path)
    rc, out = run(["coqc", "-Q", os.path.join(COQ, "theories"), "Cell2V", path], 1200, cwd=workdir)
    if rc != 0:
        return None, None, "coqc %s failed:\n%s" % (path, "\n".join(out.strip().split("\n")[-15:]))
    dis, mon = parse_idx(out, "dis"), parse_idx(out, "mon")
    if dis is None or mon is None:
        return None, None, "cannot parse coqc output:\n" + out[-800:]
    return dis, mon, None


def evaluate(P, cases, workdir, shard=500):
    """returns (disagreeing case indexes, monitor failing indexes, error)"""
    shards = [cases[i:i + shard] for i in range(0, len(cases), shard)]
    dis_all, mon_all = [], []
    with ThreadPoolExecutor(max_workers=14) as ex:
        futs = [ex.submit(eval_shard, P, s, workdir, k) for k, s in enumerate(shards)]
        for k, fu in enumerate(futs):
            dis, mon, err = fu.result()
            if err:
                return None, None, err
            dis_all += [k * shard + i for i in dis]
            mon_all += [k * shard + i for i in mon]
    return dis_all, mon_all, None


def model_output(P, case, workdir):
    """pretty text of what the model computes for a case (for the replay report)"""
    if not hasattr(P, "MODEL_SHOW"):
        return ""
    path = os.path.join(workdir, "show.v")
    imports = getattr(P, "COQ_IMPORTS", "From Cell2V Require Import Common.Tac %s.Model %s.Corr." % (P.ID, P.ID))
    with open(path, "w") as f:
        f.write(imports + "\n")
        f.write("Eval vm_compute in (%s %s).\n" % (P.MODEL_SHOW, coq_term(case["ops"])))
    rc, out = run(["coqc", "-Q", os.path.join(COQ, "theories"), "Cell2V", path], 300, cwd=workdir)
    return out.strip()


# ---------------------------------------------------------------- shrinking
def still_bad(P, binp, ops_list, workdir, want):
    """re-run candidate op lists on the real code; returns list of bools (bad?)"""
    inp = os.path.join(workdir, "shrink_in.jsonl")
    outp = os.path.join(workdir, "shrink_out.jsonl")
    with open(inp, "w") as f:
        for ops in ops_list:
            f.write(json.dumps({"ops": ops}) + "\n")
    rc, out = harness_run(binp, P, ["--in", inp], outp, workdir, 300)
    if rc != 0:
        return [False] * len(ops_list), None
    cs = load_cases(outp)
    if len(cs) != len(ops_list):
        return [False] * len(ops_list), None
    dis, mon, err = evaluate(P, cs, workdir)
    if err:
        return [False] * len(ops_list), None
    bad = set(mon) if want == "mon" else set(dis) | set(mon)
    return [i in bad for i in range(len(cs))], cs


def shrink(P, binp, case, workdir, want, budget_s=60):
    ops = case["ops"]
    if hasattr(P, "shrink_candidates"):
        # property-specific shrinking: P.shrink_candidates(ops) -> list of smaller ops terms
        t0 = time.time()
        best = case
        while time.time() - t0 < budget_s:
            cands = P.shrink_candidates(best["ops"])[:64]
            if not cands:
                break
            flags, cs = still_bad(P, binp, cands, workdir, want)
            hit = next((i for i, b in enumerate(flags) if b), None)
            if hit is None or cs is None:
                break
            best = cs[hit]
        return best
    if not isinstance(ops, list) or not getattr(P, "SHRINK", True):
        return case
    t0 = time.time()
    best = case
    n = 2
    while len(ops) >= 2 and time.time() - t0 < budget_s:
        chunk = max(1, len(ops) // n)
        cands = [ops[:i] + ops[i + chunk:] for i in range(0, len(ops), chunk)]
        cands = [c for c in cands if len(c) < len(ops)]
        if not cands:
            break
        flags, cs = still_bad(P, binp, cands, workdir, want)
        hit = next((i for i, b in enumerate(flags) if b), None)
        if hit is not None and cs is not None:
            ops = cands[hit]
            best = cs[hit]
            n = max(n - 1, 2)
        else:
            if chunk == 1:
                break
            n = min(n * 2, len(ops))
    return best


# ---------------------------------------------------------------- known findings
def load_known():
    p = os.path.join(ROOT, "known_findings.json")
    if not os.path.exists(p):
        return []
    return json.load(open(p)).get("findings", [])


def match_known(P, case, known):
    if not hasattr(P, "finding_signature"):
        return None
    sig = P.finding_signature(case)
    for k in known:
        if k.get("property") == P.ID and k.get("status", "open") == "open" and k.get("signature") == sig:
            return k
    return None


# ---------------------------------------------------------------- main
def write_replay(P, kind, payload):
    os.makedirs(REPLAYS, exist_ok=True)
    h = hashlib.sha1(json.dumps(payload, sort_keys=True).encode()).hexdigest()[:10]
    path = os.path.join(REPLAYS, "%s-%s-%s.json" % (P.ID, kind, h))
    with open(path, "w") as f:
        json.dump(payload, f, indent=1)
    return path


def main():
    ap = argparse.ArgumentParser()
    ap.add_argument("prop", nargs="?")
    ap.add_argument("--build-only", action="store_true")
    ap.add_argument("--tier", default=os.environ.get("VERIF_TIER", "quick"))
    ap.add_argument("--replay")
    ap.add_argument("--repo", default=os.environ.get("CELL2_REPO", "/repo"))
    ap.add_argument("--n", type=int)
    ap.add_argument("--keep", action="store_true")
    ap.add_argument("--as-prop", help="report violations under this property id (sub-check of another property)")
    a = ap.parse_args()
    if a.build_only:
        enabled = json.load(open(os.path.join(ROOT, "bin", "enabled.json")))
        for pid in list(enabled):
            enabled += [x for x in getattr(importlib.import_module("props." + pid), "ALSO", []) if x not in enabled]
        targets = []
        for pid in enabled:
            targets += ["theories/%s/Props.vo" % pid, "theories/%s/Corr.vo" % pid]
        rc, out = coq_build(timeout=3300, targets=targets)
        ok = rc == 0
        if not ok:
            print("setup: coq build failed\n" + "\n".join(out.strip().split("\n")[-30:]))
        for pid in enabled:
            P = importlib.import_module("props." + pid)
            binp, err = harness_build(a.repo, P)
            if err:
                print("setup:", P.ID, err)
                ok = False
        sys.exit(0 if ok else 1)
    tier = a.tier if a.tier in ("quick", "thorough") else "quick"
    seed = int(os.environ.get("VERIF_SEED", "20261001") or 20261001)
    P = importlib.import_module("props." + a.prop)
    t0 = time.time()
    os.makedirs(BUILD, exist_ok=True)
    workdir = tempfile.mkdtemp(prefix="run-%s-" % P.ID, dir=BUILD)
    violations = []   # (replay path, suffix)
    known_lines = []
    cov = {}
    try:
        # 1. proofs
        pr = proof_stage(P, tier)
        log("proof stage: %d/%d theorems with assumption report; axioms=%s" %
            (pr["discharged"], pr["obligations"], pr["assumptions"] or "none"))
        for e in pr["errors"]:
            log("PROOF PROBLEM:", e)
        # 2. tie
        binp, berr = harness_build(a.repo, P)
        cases, dis, mon, herr = [], [], [], None
        hout = ""
        if berr:
            herr = berr
        else:
            n = a.n or (P.N_THOROUGH if tier == "thorough" else P.N_QUICK)
            out_jsonl = os.path.join(workdir, "cases.jsonl")
            args = ["--seed", str(seed), "--n", str(n), "--tier", tier]
            if a.replay:
                rp = json.load(open(a.replay))
                inp = os.path.join(workdir, "replay_in.jsonl")
                with open(inp, "w") as f:
                    for c in rp.get("cases", []):
                        f.write(json.dumps({"ops": c["ops"]}) + "\n")
                args += ["--in", inp]
            corpus = os.path.join(ROOT, "corpus", P.ID + ".jsonl")
            tmo = getattr(P, "HARNESS_TIMEOUT", 900) * (4 if tier == "thorough" else 1)
            if os.path.exists(corpus) and not a.replay:
                cout = os.path.join(workdir, "corpus_out.jsonl")
                rc, hout = harness_run(binp, P, ["--in", corpus], cout, workdir, tmo)
                if rc != 0:
                    herr = "harness (corpus) exit %d:\n%s" % (rc, "\n".join(hout.strip().split("\n")[-20:]))
                else:
                    cases += load_cases(cout)
            if not herr:
                rc, hout = harness_run(binp, P, args, out_jsonl, workdir, tmo)
                if rc != 0:
                    herr = "harness exit %d:\n%s" % (rc, "\n".join(hout.strip().split("\n")[-20:]))
                else:
                    cases += load_cases(out_jsonl)
        if herr:
            log("CORRESPONDENCE PROBLEM:", herr)
        elif not any("coq build failed" in e for e in pr["errors"]):
            dis, mon, eerr = evaluate(P, cases, workdir)
            if eerr:
                herr = eerr
                dis, mon = [], []
                log("CORRESPONDENCE PROBLEM:", eerr)
        log("cases=%d disagree=%d monitor-fail=%d" % (len(cases), len(dis), len(mon)))

        # 3. verdict
        known = load_known()
        # monitor failures first: they carry a concrete failing input; a benign disagreement earlier in
        # the run must not be the one that gets shrunk and reported
        bad_idx = sorted(mon) + sorted(set(dis) - set(mon))
        reported = set()
        reproduced_known = set()
        shrinks = 0
        # Confirmation of isolated alarms.  The harnesses drive real goroutines, sockets and timers;
        # a single case out of thousands can time out under machine load and come back as an
        # unmatchable observation.  When at most 3 cases of a run are bad, each is re-executed twice
        # from its ops: a deterministic failure (every seeded change so far, every defect found)
        # reproduces; a case that is clean in BOTH re-runs is recorded in the evidence as transient
        # and not reported.  With more than 3 bad cases nothing is filtered.
        transient = []
        ctxdep = set()
        if 0 < len(bad_idx) <= 3 and binp and not a.replay and os.environ.get("VERIF_NOCONFIRM") != "1":
            confirmed = []
            for i in bad_idx:
                want = "mon" if i in mon else "any"
                again = False
                for _ in range(2):
                    flags, _cs = still_bad(P, binp, [cases[i]["ops"]], workdir, want)
                    if _cs is None or (flags and flags[0]):
                        again = True   # reproduced, or the re-run itself failed: keep the alarm
                        break
                if again:
                    confirmed.append(i)
                else:
                    transient.append({"ops": cases[i]["ops"], "impl_obs": cases[i]["obs"], "kind": cases[i].get("kind"),
                                      "was": "monitor" if i in mon else "correspondence", "index": i})
            if transient:
                # not reproducible in isolation: the failure may need the cases that ran before it in the
                # same process (state kept between calls).  The whole generation is repeated once with the
                # same seed: a case that is bad again at the same position is deterministic after all.
                out2 = os.path.join(workdir, "cases_again.jsonl")
                rc2, _o2 = harness_run(binp, P, args, out2, workdir, tmo)
                bad2 = set()
                if rc2 == 0:
                    cs2 = load_cases(out2)
                    d2, m2, e2 = evaluate(P, cs2, workdir)
                    if not e2:
                        off = len(cases) - len(cs2)   # corpus cases come first in `cases`
                        bad2 = {j + off for j in set(d2) | set(m2)}
                else:
                    bad2 = {t["index"] for t in transient}   # the repeated run died: keep the alarm
                still = [t for t in transient if t["index"] in bad2]
                for t in still:
                    confirmed.append(t["index"])
                    ctxdep.add(t["index"])
                    log("case %d (%s) fails again when the whole run is repeated: it depends on the cases before it (process state)" % (t["index"], t["kind"]))
                transient = [t for t in transient if t["index"] not in bad2]
                for t in transient:
                    log("case %d (%s) reproduced neither alone (2 re-runs) nor in a repeated run: recorded as transient, not reported" % (t["index"], t["kind"]))
                confirmed.sort()
            bad_idx = confirmed
        for i in bad_idx[:40]:
            c = cases[i]
            want = "mon" if i in mon else "any"
            if len(reported) < 3 and shrinks < 6:
                small = shrink(P, binp, c, workdir, want)
                shrinks += 1
            else:
                small = c
            k = match_known(P, small, known) or match_known(P, c, known)
            if k:
                reproduced_known.add(k["id"])
                continue
            sig = json.dumps(small["ops"], sort_keys=True)
            if sig in reported:
                continue
            reported.add(sig)
            if len(reported) > 3:
                continue
            payload = {"property": P.ID, "kind": "monitor" if i in mon else "correspondence",
                       "explanation": ("the property monitor (the theorem's statement, evaluated on the implementation's own trace) is false"
                                       if i in mon else
                                       "implementation and proven model disagree on the projected observables of this history"),
                       "cases": [{"ops": small["ops"], "impl_obs": small["obs"]}],
                       "original_case": {"ops": c["ops"], "impl_obs": c["obs"], "kind": c.get("kind")},
                       "model_says": model_output(P, small, workdir),
                       "seed": seed, "tier": tier,
                       "replay_cmd": "python3 bin/check.py %s --replay <this file>" % P.ID}
            if i in ctxdep:
                payload["needs_run_context"] = ("this case fails only after the cases that ran before it in the same harness process "
                                                "(state kept between calls); it failed at the same position when the whole run was repeated. "
                                                "Reproduce with: VERIF_SEED=%s python3 bin/check.py %s --tier %s (case index %d)" % (seed, P.ID, tier, i))
            div = getattr(P, "DISAGREE_IS_VIOLATION", False)
            if div and hasattr(P, "disagree_is_violation"):
                div = P.disagree_is_violation(small)
            suffix = "" if (i in mon or div) else " no-failing-input-found"
            violations.append((write_replay(P, payload["kind"], payload), suffix))
        for k in known:
            if k.get("property") == P.ID and k.get("status", "open") == "open":
                known_lines.append("KNOWN-FINDING: property=%s %s [%s; %s]" % (
                    P.ID, k["what"], k["id"],
                    "reproduced this run" if k["id"] in reproduced_known else "not exercised this run"))
        if not violations and (pr["errors"] or herr):
            payload = {"property": P.ID, "kind": "broken-obligation",
                       "proof_errors": pr["errors"], "correspondence_error": herr,
                       "theorems": pr["theorems"],
                       "explanation": "a proof obligation or the correspondence no longer checks; no failing input was found on the cases that could still be run",
                       "cases": []}
            violations.append((write_replay(P, "broken", payload), " no-failing-input-found"))

        # 3b. sub-checks (helper developments whose theorems this property relies on)
        sub_results = {}
        for sub in getattr(P, "ALSO", []):
            cmd = [sys.executable, os.path.join(ROOT, "bin", "check.py"), sub, "--tier", tier, "--repo", a.repo,
                   "--as-prop", P.ID]
            rc_s, out_s = run(cmd, 3000, cwd=ROOT)
            vl = re.findall(r"^VIOLATION property=\S+ replay=(\S+)(.*)$", out_s, flags=re.M)
            for path_s, suffix_s in vl:
                violations.append((path_s, suffix_s))
            m_s = re.search(r"cases=(\d+) disagree=(\d+) monitor-fail=(\d+)", out_s)
            m_p = re.search(r"proof stage: (\d+)/(\d+)", out_s)
            m_c = re.search(r"^SUBCOV (.*)$", out_s, flags=re.M)
            sub_results[sub] = {"exit": rc_s, "cases": int(m_s.group(1)) if m_s else 0,
                                "disagreements": int(m_s.group(2)) if m_s else None,
                                "theorems_discharged": int(m_p.group(1)) if m_p else 0,
                                "theorems": int(m_p.group(2)) if m_p else 0}
            if m_c:
                sub_results[sub]["anchor_statement_coverage"] = json.loads(m_c.group(1))
            if rc_s != 0 and not vl:
                payload = {"property": P.ID, "kind": "broken-obligation", "sub_check": sub,
                           "explanation": "sub-check %s failed without a replay" % sub,
                           "output_tail": out_s.strip().split("\n")[-15:], "cases": []}
                violations.append((write_replay(P, "broken", payload), " no-failing-input-found"))
            log("sub-check %s: %s" % (sub, sub_results[sub]))

        # 4. evidence
        tags = {}
        kinds = {}
        lens = []
        distinct = set()
        for c in cases:
            kinds[c.get("kind", "")] = kinds.get(c.get("kind", ""), 0) + 1
            for t in c.get("tags") or []:
                tags[t] = tags.get(t, 0) + 1
            if isinstance(c["ops"], list):
                lens.append(len(c["ops"]))
            if c.get("nontrivial"):
                distinct.add(hashlib.sha1(json.dumps(c["ops"], sort_keys=True).encode()).digest())
        samples = []
        step = max(1, len(cases) // 4)
        for c in cases[::step][:4]:
            s = json.dumps({"ops": c["ops"], "obs": c["obs"]})
            if len(s) > 1500:
                s = s[:1500] + "...(truncated)"
            samples.append(json.loads(s) if not s.endswith("(truncated)") else s)
        samples += [{"theorem": t} for t in pr["theorems"][:3]]
        cov = {
            "obligations": pr["obligations"], "discharged": pr["discharged"],
            "checker_cmd": pr.get("checker_cmd", ""),
            "trusted_base": P.TRUSTED_BASE + ["Print Assumptions: " + (", ".join(pr["assumptions"]) if pr["assumptions"] else "Closed under the global context for every theorem in Props.v")],
            "theorems": pr["theorems"],
            "evaluations": len(cases), "distinct_nontrivial": len(distinct),
            "rule": P.RULE, "samples": samples,
            "traces_validated_against_impl": len(cases) if not herr else 0,
            "disagreements": len(dis), "monitor_failures": len(mon),
            "generator_kinds": kinds, "generator_tags": tags,
            "ops_len_min_max_mean": [min(lens), max(lens), round(sum(lens) / len(lens), 1)] if lens else [],
            "repo": a.repo,
        }
        if "coqchk_s" in pr:
            cov["coqchk"] = {"wall_s": pr["coqchk_s"], "rc": pr["coqchk_rc"], "tail": pr["coqchk_tail"][-12:]}
        cr = coverage_report(P, os.path.join(workdir, "cov"))
        if a.as_prop and cr:
            print("SUBCOV " + json.dumps(cr))
        for sub, sr in sub_results.items():
            # a sub-check drives other parts of the same anchor files: per file, the better of the two
            for f, v in (sr.pop("anchor_statement_coverage", None) or {}).items():
                cr = cr or {}
                if f not in cr or v["covered"] > cr[f]["covered"]:
                    cr[f] = dict(v, by_sub_check=sub)
        if cr:
            cov["anchor_statement_coverage"] = cr
        if sub_results:
            cov["sub_checks"] = sub_results
        if transient:
            cov["transient_cases_not_reproduced"] = transient
        if hasattr(P, "extra_coverage"):
            cov.update(P.extra_coverage(cases))
        ev = {"property_id": P.ID, "tier": tier, "seed": seed, "level": "proof", "coverage": cov,
              "assumptions": P.ASSUMPTIONS, "wall_s": round(time.time() - t0, 1),
              "violations": len(violations)}
        os.makedirs(EVID, exist_ok=True)
        if a.repo == "/repo" and not a.replay:
            tmp = os.path.join(EVID, ".%s.json.tmp" % P.ID)
            json.dump(ev, open(tmp, "w"), indent=1)
            os.replace(tmp, os.path.join(EVID, P.ID + ".json"))
    finally:
        if not a.keep:
            shutil.rmtree(workdir, ignore_errors=True)
        else:
            log("kept", workdir)
    for l in known_lines:
        print(l)
    for path, suffix in violations:
        print("VIOLATION property=%s replay=%s%s" % (a.as_prop or P.ID, path, suffix))
    log("%s %s: %s in %.1fs" % (P.ID, tier, "VIOLATION" if violations else "ok", time.time() - t0))
    sys.exit(1 if violations else 0)


if __name__ == "__main__":
    main()
