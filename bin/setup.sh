#!/bin/sh
# Build the framework from files on disk only (offline): Coq development + Go harnesses.
set -e
cd "$(dirname "$0")/.."
mkdir -p .build evidence
python3 bin/check.py --build-only || exit 1
echo "setup: ok"
