#!/bin/sh
# Build the framework from files on disk only (offline): Coq development + Go harness.
set -e
cd "$(dirname "$0")/.."
mkdir -p .build evidence
( cd coq && coq_makefile -f _CoqProject -o Makefile >/dev/null && timeout 3000 make -j16 2>&1 | grep -v '^COQC\|^COQDEP\|Closed under the global context\|^CLEAN' || true )
( cd coq && timeout 3000 make -j16 >/dev/null 2>&1 ) || { echo "setup: coq build failed"; ( cd coq && make 2>&1 | tail -30 ); exit 1; }
python3 bin/check.py --build-only || exit 1
echo "setup: ok"
