ID = "C15"
N_QUICK = 1000
N_THOROUGH = 12000
MODEL_SHOW = "run"
DISAGREE_IS_VIOLATION = True   # scripted observations are a function of the ops; concurrent blocks are compared through the acceptor only
HARNESS_TIMEOUT = 600
RULE = ("chain runners: every chain script below runs under waterfall.Sche, the Builder API, waterfall.Simple and waterfall.ExecAndWait "
        "(exhaustive chains x 4 runners; random chains pick a runner each); registry: every GetSche/DelSche sequence of length <= 3 (quick) / 5 (thorough) "
        "over two names on a fresh sche.Mgr, plus RunService name -> scheduler identity, IsStopped and name reuse after Stop in every RunService block; "
        "one RunService block with slow closures on the virtual clock (heavy-frame accounting); registry race: 400 (quick) / 4000 (thorough) trials of "
        "NewRunService(name).Start() against 8 goroutines doing GetScheMgr().GetSche(name).Post(f) behind a spin barrier (one scheduler per name, every f once). "
        "exhaustive: every script of length <= 3 (quick) / 5 (thorough) over {Post p0 ok, Post p0 panicking, Post p1 ok, Step, Stop}; "
        "every chain of length <= 2 (quick) / 3 (thorough) over 7 task behaviours (sync ok, sync error, later ok, later error, never, "
        "ok-then-panic, callback twice) driven to completion next to a plain closure; burst: consumer gated, one goroutine posts 1199 closures "
        "(blocks at 999) on Sche.Handler and on RunService; near-capacity scripts (fill 996..1001, 2-4 posters running into the full queue, "
        "consumer freeing one slot at a time, Stop while posters are blocked); concurrent posters (1-8 goroutines x <=60, and 8 x 400 quick / "
        "8 x 2000 thorough) on Handler / gated Handler / RunService / gated RunService; concurrent chains (1-6 chains, later completions from "
        "fresh goroutines); random scheduler scripts (1-40 ops, <=4 posters, 1/6 panicking closures, 1/5 with Stop) and random chain scripts "
        "(1-3 chains of <=5 tasks interleaved with plain closures, completions fired in generated orders incl. too early and twice); malformed "
        "scripts. TASK IDS (needs hooks/C15-hook-taskid.patch: VerifSetNextTaskId / VerifNextTaskId / VerifTaskId): the process-wide RunTask id counter is "
        "reset to 1 at the start of every case and positioned by OSetId; for every scheduler script of length <= 3 (quick) / 4 (thorough) and every chain "
        "(OChain / OChainB) of length <= 2 / 3, one run per Post of the script with the counter placed so that exactly THAT Post gets id 0 (the uint32 wrap); "
        "the same for one poster x 4 closures on Sche.Handler / gated Handler / RunService / gated RunService, 8 posters x 50 and the 1199-burst with the wrap "
        "among their Posts, concurrent chains, the registry race, half of the near-capacity scripts (a poster blocked on the full queue holds id 0), the counter "
        "at 0, and an OSetId injected into a third of the random scripts; the harness reports the id of every task its consumer receives (SId; value shown, "
        "not compared - tag id0-received counts the runs in which id 0 really was received) and checks the counter read-back (SBad 8). "
        "SHARED TASK LISTS: OList defines ONE []waterfall.Task + one final + one prepared Builder (the result slices handed to callbacks are shared as well), "
        "OShare starts a chain over it under waterfall.Sche / Builder.Do() / Simple / ExecAndWait; for every task list of length <= 2 (quick) / 3 (thorough) "
        "over the 7 behaviours: three chains one after the other (Sche x3, Do() x3, and a rotating pair of different runners) and two chains overlapped "
        "(Sche+Sche, Do()+Sche), all driven to completion; random scripts with 1-2 lists and 2-5 chains under random runners started at random moments; "
        "concurrent: 1-4 schedulers with the real Handler x 1-6 chains each, all over one slice resp. one Builder per scheduler (OConcS), every chain must "
        "be exactly spec(tasks). TEARDOWN (OConcStop): consumer = Sche.Handler / a REAL RunService / the RunService selector loop on a harness goroutine; a first closure holds the consumer, "
        "0, 1, 3, 40, 900 and a random number of closures are queued behind it, then Stop (RunService.Stop) is called by a foreign goroutine while the consumer is inside the holding "
        "closure, or by that closure itself, then 0-4 Posts that must fail; accepted: the closures that ran are a prefix of the queued ones, every one on the consumer goroutine "
        "(goroutine id from runtime.Stack, the stopper's and the posters' ids are foreign) and never while another closure is running (enter/exit counter), every later Post returned nil. "
        "PANIC VALUES: a panicking closure panics with a string or with one of 15 values (KPanicV: error pointer, int, struct error, real nil "
        "dereference / index out of range, panic(nil), values whose Error() / String() panic, and the non-comparable ones: slice-typed error, raw slice, map, struct "
        "holding a slice, func, array of slices); every ordered pair of the 16, scripted, with returning closures between and behind; on Sche.Handler, the gated "
        "Handler and the selector loop of a RunService (OConc mode 5: MultiSelector + FuncSelector over GetChanTask calling DoTask, as RunService.Start wires it, on a "
        "harness goroutine): every value twice, four times with another value in between next to a second poster, and all values in one run; waterfall tasks "
        "panicking with every value (OTaskPanics) twice in one chain and in two chains under all four runners, over a shared list, and in concurrent chains; random "
        "scripts draw panic values with repetition.  Every consumer the harness owns runs under a guard: a panic that leaves DoTask / Handler / the selector loop "
        "ends THAT consumer (closures behind it stay unexecuted, esc = true) - an observation of the case, not a harness crash; the exception logger stays enabled "
        "with a formatter that writes nothing, so the recover handler's formatting of the value runs. Non-trivial = at least one closure, task or final ran; distinct = distinct op lists.")
TRUSTED_BASE = [
    "Coq 8.16.1 kernel + vm_compute (case evaluation, Examples); no native_compute",
    "hand translation utils/sche/sche.go (Post, doTask, Handler, Stop), sche_mgr.go (GetSche, DelSche), utils/waterfall/waterfall_sche.go (Chain, Sche; Builder = Sche), waterfall.go (Simple as a big-step evaluator with panics as values, ExecAndWait as a token machine over chanNext cap 1) -> C15/Model.v, measured by this correspondence run",
    "ExecAndWait / Simple callers and blocked senders are observed as goroutine states 'chan receive' / 'chan send' (runtime.Stack); 'which goroutine' is measured: Simple = the goroutine that called Simple or the callback, ExecAndWait = always the calling goroutine",
    "Go harness harness/c15 (consumer = one receive from GetChanTask + DoTask per OStep; blocked posters detected as goroutine state 'chan send' via runtime.Stack), bin/check.py JSON->Coq term printer",
    "modelled not verified: sync.Mutex makes Mgr.GetSche / DelSche atomic (the registry theorem is about sequential histories; atomicity is MEASURED by the registry-race block)",
    "modelled not verified: Go buffered channel (FIFO, send blocks when full, send on / close under a blocked sender panics, receive from a closed channel drains the buffer), select in Handler (may pick either ready case), recover",
    "MEASURED, not proved (partial; in the model the consumer is the only thread that executes, C15_only_consumer_executes): every closure / task / final ran on the consumer goroutine (goroutine id from runtime.Stack compared with the consumer's; RunService: with the first closure's and against all poster ids); real blocking of Post at 999 queued tasks; concurrent runs compared only through per-poster / per-chain projections",
    "chain scripts are tied to the chain machine by sharing run_item/take_pool and by this correspondence run, not by a refinement proof; scheduler scripts are proved to be runs of the transition system (C15_script_reachable)",
    "hand translation RunTaskIdService.AllocId (atomic.AddUint32, no wrap handling) + Post (AllocId before the send) + DoTask (id not consulted) -> Model.v Part 1i; the verif-tagged hook utils/sche/verif_hooks.go (hooks/C15-hook-taskid.patch) positions / reads the real counter; id VALUES are displayed but not compared (the property does not speak about them)",
    "hand translation 'Chain.tasks is the caller's slice, read at every tryExec, never written' -> Model.v Part 2s (cstep_mem returns the array as found); shared-list scripts attribute the events of shared functions to chains through a harness-side shadow of the queue (which chain each queued closure was posted for - chain scripts never block) and, in OConcS, through the consumer goroutine the event happened on",
]
ASSUMPTIONS = [
    "waterfall.Simple / ExecAndWait are modelled WITH hooks/C15-fix-waterfall-empty.patch (empty task list -> final(false)); without it both panic (index out of range) and the corpus cases [OSimple 0 []] / [OWait 0 []] are reported",
    "Simple and ExecAndWait have no recover: a task panic reaches the caller (Simple: after the nested rest of the chain already ran; ExecAndWait: final never runs). ExecAndWait with a task that calls back twice deadlocks on its own channel (C15_double_callback_wait); its curArgs/curErr are unsynchronised and only exercised sequentially",
    "not reachable with the shipped configuration and therefore not driven: the selfBlockDefend branch of Sche.Post (7 statements), Mgr.hasSche (unexported, tests only); RunService.SetValue panics (vars map is never made) - outside this property",
    "Stop is called at most once (a second close panics in Go); closures do not Post to their own scheduler when its queue is full (self-deadlock stated in the comment of Sche.Post) - chain scripts stay below 899 queued items",
    "teardown, decided from the property text ('posted to a running scheduler ... executed exactly once on the scheduler's consumer goroutine'; Stop does not wait): a closure still queued when Stop is called is run by the consumer before it ends, or never (Handler's select / the RunService selector may pick the close channel first) - never by the goroutine that calls Stop and never after the consumer has ended (C15_only_consumer_executes); 'exactly once' is claimed for schedulers that are not stopped, 'at most once, in order, on the consumer, one at a time' always",
    "a waterfall task that calls its callback twice is outside the property: the chain has no guard and final can run twice (C15_double_callback, C15_callbacks_conserved)",
    "selfBlockDefend = false (the shipped value)",
    "a real RunService starts its loop on a goroutine of its own (go r.loop()), which no harness can guard: panicking closures reach the RunService path only through OConc mode 5, the same selector wiring (MultiSelector / FuncSelector / DoTask) with the loop `for running { HandleOnce() }` written in the harness; RunService.loop's own statements (analysisRunning) run in modes 2-4 without panicking closures",
    "the caller does not modify a task list while chains are running over it (the chain reads c.tasks[index] at every step); a chain over a shared list is otherwise held to exactly the standard of a chain over a list of its own (C15_chain_frame, C15_shared_chains)",
]
TECHNIQUE = ("Coq proof (inductive invariant of an interleaving transition system for all poster counts / programs / schedules; refinement of the chain machine "
             "to a history function for all chains / completion orders) + differential correspondence and property monitor against the real sche.Sche, RunService and waterfall.Sche")
LEVEL_TEXT = ("Machine-checked Coq theorems: exactly-once / global and per-poster FIFO / panic isolation for every panic value (frame: programs differing only in what closures panic with behave alike under every schedule) / post-after-stop for the scheduler model with a 999-slot blocking queue, "
              "unbounded in posters, programs and schedules, for every value of the process-wide task id counter (ids wrap mod 2^32, id 0 included); order / argument passing / first-error / final-once for the chain model, unbounded in length and completion order. "
              "PARTIAL: 'on the consumer goroutine' and real blocking are measured on the running code each run, not proved.")
