ID = "C05"
N_QUICK = 400
N_THOROUGH = 20000
MODEL_SHOW = "show"
DISAGREE_IS_VIOLATION = True   # observables are exactly what the property fixes
HARNESS_TIMEOUT = 600
RULE = ("exhaustive: every end cause (client close, kick, external Close, heartbeat expiry, write failure via push / via heartbeat, "
        "illegal header, truncated frame + EOF, bad handshake JSON, undecodable message, packet-decoder error, handshake-response write failure) "
        "x every life-cycle stage (connected / Add not yet consumed, handshake in flight, handshake done, ack in flight, working, working with "
        "traffic, message in flight, message in flight with Add+messages not yet consumed), each with and without a bystander connection and "
        "post-mortem pokes (push, data, kick, tick, Close on the dead session), and without the final flush; every ORDERED PAIR of causes at "
        "every stage; every non-empty SET of the four closer operations issued concurrently from separate goroutines at every stage, also "
        "concurrently with releasing the parked reader; heartbeat limit at 0/1/19999/20000/20001/40000 ms; id counter at 2^32-3..2^32-1/0/1 "
        "(wrap, skip 0) and an id reused while live; heartbeat() with its REAL ticker (2 ms); SEND QUEUE AT CAPACITY: client stops reading, "
        "writer parked in conn.Write, 10026 pushes from a goroutine (9999 fill chSend, the 10001st parks), optionally a heartbeat send and the "
        "owning service's PushMsg parked too, then every end cause, then pushes to the dead session and to a bystander; exactly 9999/10000/10001/10002 "
        "pushes with and without a kick; CONNCHAN AT CAPACITY: real TCPAcceptor + pomelo.StartAcceptor with OnSessionCreate gated (service busy), "
        "1/5/99/100/101/130 clients connected one after the other, gate opened, every client handshakes and sends its own number, closes; "
        "TRANSPORTS: REAL sockets through the real acceptors started by pomelo.StartAcceptor - TCP, TCP+TLS (the repository's fixture "
        "certificates), websocket, websocket over TLS - x end cause (polite client close, illegal header, truncated frame, kick, undecodable message, "
        "bad handshake JSON, client RST abort, heartbeat expiry, frame longer than its header, peer stopped reading with the writer parked in the socket "
        "write then kick / then heartbeat expiry) x 0/3 messages; conn.Close() RETURNING AN ERROR: every cause x every stage on the in-memory "
        "connection; kicks of even-numbered connections through a customised kick handler (SetKickHandler -> DoKick); the per-session close callback "
        "is registered with and fired by the real HandlerComponent; random sequences of 3-60 operations over 1-3 "
        "connections (packets of all 10 classes, holds/releases, partial front drains, ticks, pushes to live/dead/unknown ids). "
        "Non-trivial = the owning service observed at least one session removal; distinct = distinct op sequences.")
TRUSTED_BASE = [
    "Coq 8.16.1 kernel + vm_compute (case evaluation, Examples); no native_compute",
    "hand translation pomelonet/server/session/session.go (read/write/heartbeat/Close/Push), node/client/impls/pomelo/sessionsimpl.go, "
    "node/client/impls/sessions.go, utils/common/serialid.go -> C05/Model.v, measured by this correspondence run",
    "atomicity of the model: one step = one access to shared state (status word, latch under the session mutex, chSend, scheduler queue, "
    "connection) plus the goroutine-local computation before it; Close() is one step because it runs under the session mutex; "
    "sync/atomic sequentially consistent, Go channels FIFO (the scheduler queue has several producers)",
    "Go harness harness/c05: real TCP / TLS / websocket / wss clients (net, crypto/tls, gorilla/websocket) against the real acceptors; "
    "a panic of the implementation on a goroutine of the harness (kick, Close, heartbeat tick, PushMsg) is recovered and reported as hang = true; "
    "in-memory connection with tcp_acceptor.go's GetNextMessage framing copied statement for statement, blocking "
    "PacketDecoder wrapper (the only place a reader is held), recording IClientSessionImpl / IClientSession proxy / ISessionsHandler, "
    "goroutine census by runtime.Stack, virtual clock common.VerifSetNowMs, hooks VerifHeartbeatTick (tick body) and VerifSetNextId; "
    "bin/check.py JSON->Coq term printer",
    "modelled not verified: net.Conn (buffered, TCP-like; a Write to a client that stopped reading parks, and fails once that client "
    "has closed), sche.Sche (a FIFO channel drained by one goroutine; its capacity 999 enters only as the gate 'OnSessionCreate's Post blocks'), "
    "time.Ticker (exercised for real only in the real-ticker cases), the kernel's listen backlog (FIFO), logger",
    "parked senders are observed by a goroutine census (stack contains ClientSession.pushToSend, state 'chan send'); the order in which Go "
    "serves several senders parked on one channel is left to the schedule in the model",
    "MEASURED, not proved (property is partial): goroutines released (census of goroutines inside read/write/heartbeat = model's count of "
    "unfinished threads at the end of every case; runtime.NumGoroutine back to its baseline after teardown) and socket released "
    "(conn.Close called exactly once, peer end sees EOF)",
]
ASSUMPTIONS = [
    "life-cycle theorems carry the guard f_reused = false (no session id handed out twice within the history); C05_fresh_if_few discharges "
    "it while at most 2^32-1 sessions were ever added; with more, C05_ids_unique still gives distinct ids to sessions added fewer than 2^32-1 "
    "allocations apart, but the life-cycle statement is then not proved (an id reused after removal could alias a message still in flight)",
    "oversize packets cannot be expressed on a byte stream: a 3-byte length never exceeds codec.MaxPacketSize (ParseHeader's size check is "
    "dead code); on websocket a message longer than its header announces is exercised (net cause 8)",
    "on real sockets the fault placements are the scripted ONet scenarios (nothing can be held there); the exhaustive cause x stage x pair / "
    "race enumeration runs on the in-memory connection, whose framing is tcp_acceptor.go's; a pure write failure without a read error is not "
    "placed on a real socket",
    "the owning service processes posted closures one at a time in channel order (sche contract)",
    "the scheduler queue (capacity 999) is never full when a Msg or a Remove is posted: Post from the read loop / from inside Close() is a "
    "non-blocking step in the model (a full queue there would park Close() while it holds the session mutex - not modelled, not exercised); "
    "only OnSessionCreate's Post is allowed to block (gate)",
    "a write to a connection whose peer closed succeeds (TCP-like); only injected failures and a locally closed connection make Write fail",
]
TECHNIQUE = ("Coq proof (interleaving transition system of any number of connections with read/write/heartbeat/closer threads and the front's "
             "event queue; invariants by induction over all schedules) + differential correspondence against the real ClientSession / "
             "SessionsImpl / ClientSessions under exhaustively enumerated fault placements")
LEVEL_TEXT = ("Machine-checked Coq theorems over ALL schedules and environment traces: single-latch lemma (a step posts Remove iff it flips "
              "the latch; Remove and close callbacks at most once), life cycle Add . Msg* . Remove . CloseCb with messages in arrival order "
              "and nothing after Remove at every moment, completeness at every terminal state after any end cause, pushes to removed "
              "sessions dropped with frame, id sequence/uniqueness with the wrap written out. The harness fault sequences are proved to be "
              "schedules of the model; model and real code are run on the same sequences each run and every handler event, callback count, "
              "push count, goroutine count and EOF flag is compared. Partial: release of goroutines/socket is measured, not proved.")


def _targets(ops):
    """connection tokens the sequence works on, most used first"""
    cnt = {}
    for o in ops:
        (name, args), = o.items()
        if args and isinstance(args[0], int) and name not in ("OTick", "OSetNext", "OBurst", "ORealTicker", "OTcp"):
            cnt[args[0]] = cnt.get(args[0], 0) + 1
    return sorted(cnt, key=lambda c: -cnt[c])


def shrink_candidates(ops):
    """Smaller fault sequences to try, cheapest information first: a few canonical probes built
    from the features of the failing sequence (a full send queue, a malformed handshake, a
    message in flight), then delta-debugging chunks from halves down to single operations.
    A case that leaks costs a teardown watchdog, so every round is kept short."""
    n = len(ops)
    if n <= 1:
        return []
    names = [list(o.keys())[0] for o in ops]
    cands = []

    def add(c):
        if len(c) < n and c not in cands:
            cands.append(c)

    tg = _targets(ops)
    c = tg[0] if tg else 1
    work = [{"OConnect": [c]}, {"OSend": [c, "PHandshake"]}, {"ORelease": [c]}, {"OSend": [c, "PAck"]}, {"ORelease": [c]}]
    if "OFlood" in names:
        fl = next(o for o in ops if "OFlood" in o)
        for closer in ({"OCloseExt": [c]}, {"OKick": [c]}, {"OClientClose": [c]}):
            add([{"OConnect": [c]}, {"OWstall": [c]}, fl, closer, {"ODrain": []}])
            add(work + [{"ODrain": []}, {"OWstall": [c]}, fl, closer, {"ODrain": []}])
    chunk = n // 2
    while chunk >= 1 and len(cands) < 20:
        for i in range(0, n, chunk):
            add(ops[:i] + ops[i + chunk:])
            if len(cands) >= 20:
                break
        chunk //= 2
    return cands[:20]
