ID = "C13"
N_QUICK = 300
N_THOROUGH = 12000
MODEL_SHOW = "run"
DISAGREE_IS_VIOLATION = True   # observables are exactly what the property fixes
RULE = ("exposure stream: every zoo entry (37 registrations - value, pointer, one unnamed struct type - of 33 entry types, "
        "134 methods) x 7 naming functions x 3 group options (quick: 4 of the 7 naming functions per entry, one group option each), two (quick: four) methods per case: HasMethod for "
        "every declared name renamed/raw/mutated (7 routes per method), GetArgType for the real route, one CallWithSerialize "
        "per method; behaviours stream: every zoo entry x {JSON, protobuf} x method with a context and a message parameter: "
        "12 handler behaviours (3 of them keep the completion function, 2 panic with a hostile value) x with/without completion function, matching/nil/foreign context, undecodable payload, through "
        "CallWithSerialize and APICollection.Call (nil / foreign message too; short list for non-handler-shaped methods in "
        "quick); dispatch stream: a real actorex/service.Service with an APIDispatcher over 1-3 collections of entries taking "
        "*RemoteContext (5 configurations x dispatcher orders incl. empty / repeated / unbuilt collection) x every route of "
        "theirs plus unknown / malformed / empty ones x request ids and notifications x 7 behaviours x protobuf bodies "
        "(good, truncated, invalid, empty), sent as hand-made ServiceRequest messages by a recording peer actor; sequence "
        "stream: per message type (JSON structs with int/string/bool/slice/map/nested-pointer fields, **struct, TestHello) a "
        "well-formed JSON object with exactly one wrong-typed field and the others good/omitted (rejected after the good fields "
        "were stored) followed by valid objects with every subset of fields (quick: none, each single one, all), nulls, {} - "
        "on the same route, another method, another entry; protobuf: every ordered pair of 9 bodies (partial, unknown field, "
        "wrong wire type, good field then truncation / invalid UTF-8) through CallWithSerialize and through the dispatching "
        "service; rejection stream: every zoo entry Build() refuses (unnamed type, unexported type name, no handler-shaped method, value "
        "with pointer-receiver handlers) x 4 valid entries asking for the SAME group name (explicit name / the valid entry's own "
        "type name / a constant naming function) x 7 orders of register-bad / register-good / register-duplicate / Build / "
        "rebuild, each Build followed by HasMethod, GetArgType and a call for every route of every registered entry (quick: "
        "a third of it); overlap stream: 2-3 calls / requests whose handlers KEEP the completion function (BDefer, BOkDefer, BDeferPanic) "
        "on one collection, on ONE reused dispatcher over two collections, and mixed, with complete calls, a notification and "
        "further kept functions in between; the kept functions are then run (OFire) in every order, each twice, with a result / "
        "an error / an unserialisable result, plus runs of functions that do not exist (quick: half of it); panics stream: 11 kinds of panic value (string, error, runtime errors, custom error, typed-nil error "
        "whose Error() panics, value whose String()/Error() panics, nil, non-comparable value, wrapped error, int) through "
        "CallWithSerialize, Call, a notification and the dispatching service, each followed by a normal call; dots stream: group "
        "names with dots / empty segments (chat.room, a., .b, a..b, ., chat.room.x) x naming functions producing dots or the empty "
        "name x 3 entries: HasMethod, GetArgType and a call for every way of gluing group and method names and for routes with "
        "0-4 dots; f4 stream: 1 (quick) / 9 (thorough) three-op cases addressing a notify-shaped method with a completion "
        "function / request id (plus 2 in the corpus); "
        "random: 1-4 registrations (one in six of an entry Build() refuses; group collisions, register-after-build, no build), 4-15 ops with real / mutated / random "
        "/ special routes, encoded / field-wise (omitted / good / wrong-typed / null fields) / protobuf-partial / malformed / random / empty payloads, nil serializer, one op in eight runs a kept completion function; every third random case is a "
        "dispatch case (1-3 collections, random dispatcher order per request). Non-trivial = some HasMethod answered true or "
        "some call / request produced an event (method invocation, completion or response); distinct = distinct op sequences.")
TRUSTED_BASE = [
    "Coq 8.16.1 kernel + vm_compute (case evaluation, Example, the _refuted witnesses); no native_compute",
    "hand translation apimapper/formater/formater.go, apimapper/apientry/{container,collection,caller,utils}.go, "
    "actorex/service/api.go and Service.handleRequest -> C13/Model.v (with hooks/C13-fix-once-guard*.patch and "
    "hooks/C13-fix-request-deserialize.patch applied), measured by this correspondence run",
    "Go harness harness/c13: method descriptors derived with package reflect (Kind, Implements, AssignableTo, method order) "
    "and a static list for unexported methods; decode oracle = encoding/json and google.golang.org/protobuf called directly "
    "into a FRESH value per call; every zoo handler reports the WHOLE argument it was given as a value token: the canonical "
    "renderings (all fields; JSON structs via json.Marshal, TestHello incl. unknown-field bytes) met in a case are numbered, "
    "the same numbering serving oracle and handlers, so equal token <=> equal rendering; Dispatch layer: real Service + recording peer in a local protoactor system, responses classified by ErrCode and the "
    "'no method' prefix of ErrInfo, actor failure observed as *actor.Restarting; bin/check.py JSON->Coq term printer",
    "modelled not verified: package reflect (Method enumeration in name order, Call's assignability check and its panic), "
    "Go maps (as association lists), recover() catching every panic of the handler goroutine, encoding/json and protobuf "
    "(enter as the per-type decode table of each call / request), strings.Split, protoactor (local Send = FIFO delivery to the "
    "target mailbox, supervisor restarts a failing actor), remote.Serialize/Deserialize (enter as rawok and as the "
    "'result cannot be serialised' behaviour)",
]
ASSUMPTIONS = [
    "type and method names are ASCII (isExported / strings.ToLower / ToUpper are modelled on ASCII bytes)",
    "handlers complete on the service goroutine, either before returning or later (kept completion functions are run between operations, never concurrently with one: the model is sequential); a completion function panics only in the one modelled way (Service.Response on a result it cannot serialise)",
    "a request handler whose own code returns normally without ever completing (behaviour BNever) is outside 'exactly once': the theorems give 0 completions / responses for it",
    "the per-container serializer option and serializeRet are not used on this call path and are not modelled",
    "Dispatch layer: the service has a dispatcher set; requests carry the registered type name of TestHello (an unknown type name takes the same repaired path as an undecodable body and is covered only by the Go test in the patch); a type-based ReceiveRequest that itself answers a request the dispatcher already refused with 'no method' would produce a second response - the harness's receiver only records the fall-through",
]
TECHNIQUE = ("Coq proof (Build()'s tables refine a declarative resolution over the registered descriptors; master equations for the "
             "event trace of every call and for the responses of every dispatched request) + differential correspondence against the real "
             "APICollection / CallWithSerialize and a real actorex/service.Service with APIDispatcher, over a zoo of entry types")
LEVEL_TEXT = ("Machine-checked Coq theorems over ALL entry sets, naming functions, routes, payload decode tables, contexts and handler "
              "behaviours: exposure iff handler shape (and nothing else), GetArgType = declared message type, the targeted method runs "
              "exactly once with the decoded value, no method runs in any failure case, no panic escapes, and - outside the one "
              "situation F4 - a completion function is completed exactly as owed (once; with an error in every failure case); through "
              "Service.handleRequest + APIDispatcher.Dispatch over any list of collections: exactly one response per request ('no method' "
              "when no collection has the route, an error in every other failure case), none per notification, the service never fails. "
              "The unrestricted completion / one-response theorems are proved FALSE for today's code (F4, known finding; the existing test "
              "TestCall pins it). The model is tied to the Go code by running both on the same histories each run.")


# ---- known finding F4: completion function passed to a notify-shaped method ----
def _s(l):
    if isinstance(l, dict):  # {"B": [["x67", "x2e", ...]]}
        (p,), = l.values()
        return "".join(chr(int(x[1:], 16)) for x in p)
    return bytes(l).decode("latin-1")


def _nf(term):
    if term == "None":
        return lambda s: s
    (_, (inner,)), = term.items()
    if inner == "nf_lower":
        return lambda s: "".join(chr(ord(c) + 32) if "A" <= c <= "Z" else c for c in s)
    if inner == "nf_upper":
        return lambda s: "".join(chr(ord(c) - 32) if "a" <= c <= "z" else c for c in s)
    if inner == "nf_camel":
        return lambda s: (chr(ord(s[0]) + 32) if "A" <= s[0] <= "Z" else s[0]) + s[1:] if s else s
    (name, (k,)), = inner.items()
    k = _s(k)
    if name == "nf_const":
        return lambda s: k
    if name == "nf_prefix":
        return lambda s: k + s
    raise ValueError(name)


def _shape(m):
    uid, name, exported, ins = m["M"]
    ps = [p["P"] for p in ins]
    if not exported or len(ps) not in (2, 3):
        return False
    if not (ps[0][0] and ps[0][1] and ps[1][0]):
        return False
    return len(ps) == 2 or ps[2][2]


def _resolve(built, route):
    subs = route.split(".")
    if len(subs) == 1:
        g, mn = "_", subs[0]
    elif len(subs) == 2:
        g, mn = subs
    else:
        return None
    for (e, o) in built:
        zid, tname, meths = e["E"]
        group, nft = o["O"]
        nf = _nf(nft)
        tname = _s(tname)
        gname = _s(group) or nf(tname)
        if gname != g or not (tname[:1] >= "A" and tname[:1] <= "Z") or not any(_shape(m) for m in meths):
            continue
        hit = None
        for m in meths:
            if _shape(m) and nf(_s(m["M"][1])) == mn:
                hit = m
        return hit
    return None


def finding_signature(case):
    """'C13:F4' iff every call of the case that was given a completion function (a request id, on
    the Dispatch path) and ended with no completion / response and no invocation at all is a call
    whose route resolves to a notify-shaped method (in the first collection of the dispatcher that
    has the route) and whose payload decodes - and there is at least one such call."""
    reg, built, f4, other = {}, {}, 0, 0
    try:
        for op, ob in zip(case["ops"], case["obs"]):
            if isinstance(op, str):
                name, a = op, []
            else:
                (name, a), = op.items()
            if name == "OBuild":
                built[a[0]] = list(reg.get(a[0], []))
            elif name == "OReg":
                reg.setdefault(a[0], []).append((a[1], a[2]))
            elif name in ("OCallSer", "OCall"):
                tr, esc = ob["BCall"]
                if name == "OCallSer":
                    k, ser, route, _, dec, _, cb, _ = a
                else:
                    k, route, _, _, cb, _ = a
                if not cb or tr or esc:
                    continue
                m = _resolve(built.get(k, []), _s(route))
                ok = m is not None and len(m["M"][3]) == 2
                if ok and name == "OCallSer":
                    t = m["M"][3][1]["P"][4]
                    ok = ser != "SNil" and any(p[""][0] == t and p[""][1] != "DBad" for p in dec)
                if ok:
                    f4 += 1
                else:
                    other += 1
            elif name == "ODispatch":
                ks, rid, route, _, dec, rawok, _, _ = a
                inv, rsps, fell, esc = ob["BDisp"]
                route = _s(route)
                if rid == 0 or route == "" or inv or rsps or esc:
                    continue
                m = None
                for k in ks:
                    m = _resolve(built.get(k, []), route)
                    if m is not None:
                        break
                ok = m is not None and len(m["M"][3]) == 2
                if ok:
                    t = m["M"][3][1]["P"][4]
                    ok = any(p[""][0] == t and p[""][1] != "DBad" for p in dec)
                if ok:
                    f4 += 1
                else:
                    other += 1
    except Exception as e:  # malformed case: never match
        return "C13:unclassified:%s" % type(e).__name__
    if f4 > 0 and other == 0:
        return "C13:F4 completion function passed to a notify-shaped method: nothing runs, nothing is completed"
    return "C13:other"
