import os, sys
sys.path.insert(0, os.path.dirname(os.path.dirname(os.path.abspath(__file__))))
import mmo_overlay

ID = "C20"
N_QUICK = 500
N_THOROUGH = 12000
MODEL_SHOW = "run"
DISAGREE_IS_VIOLATION = True   # observables are exactly the id sets the property fixes
HARNESS_DIR = mmo_overlay.HARNESS_MMO
HARNESS_BIN = "c20"
EXTRA_SUMS = [mmo_overlay.MMO_SUM]


def prepare_build(repo, bdir):
    """regenerate the overlay module `mmo` from the CURRENT text of repo/_projects/mmo/server and
    check that the copied files still compile against the stubs"""
    return mmo_overlay.prepare(ID, repo, bdir)


_desc = mmo_overlay.describe(ID)

RULE = ("one OMove in three (decided from the op alone) is executed on the ZoneSpace as a path of sub-millimetre steps (1/2048 unit, exact in float32) ending at the target - a different history of UpdateEntityPos calls with the same current positions, which the refinement theorem covers; Units of 1/8. exhaustive: every op sequence of length <= 3 (quick) / 4 (thorough) over an 8-op alphabet "
        "(add/move/remove of two entities on and around the borders of a 3x3 grid) followed by 4 queries; boundary sweep: on 5 grids, "
        "for every zone border and every clamp boundary (begin, end, begin + zones*size = far edge of the extra last zone) and one "
        "unit (1/8) to either side, on both axes: entities placed there, moved across it, removed, and queries whose bounding-box "
        "edge (pos-radius / pos+radius) lies exactly there; crowding: 1/8/9/10/17/40 entities inside one zone (first/last column and "
        "row, middle; two grids) with the zones stored immediately before and after it occupied before resp. after the crowding, "
        "queries over the crowded zone, each neighbour and everything, moves between the two zones, removals ascending and "
        "descending with a re-add; random: 4-72 ops (every 5th case in crowding mode: up to 130 ops, ids 1..40, 88% of the "
        "positions inside one zone and its index-neighbours) "
        "on the production grid (Init(-30,-30,30,30,5)) or a random grid (zone sizes 1/8..12.5, up to 14x14 zones, extents "
        "that are / are not multiples of the zone size), coordinates uniform, on/next to zone borders, outside the map and at "
        "+-64, radii 0, exactly reaching an entity (+-1/8; axis-aligned and 3-4-5), negative, larger than the map, r*2^e up to "
        "+Inf ('everything'), searcher = collect-all or the real searchers.FindPlayers; duplicate adds, moves/removes of absent "
        "ids, degenerate Init parameters. A panic anywhere in the space packages (either stream) becomes the observation BPanic / BFloat false of that operation. For these inputs every float32 operation before a comparison is exact "
        "(differences of multiples of 1/8 below 2^10; squares are multiples of 1/64 below 2^22; sqrt(s) and r differ by "
        "more than half an ulp unless s = r^2, where both comparisons agree; non-integral quotients m/s are at least 1/s "
        "away from an integer), so id sets are compared exactly, without a tolerance band. float stream (search support, "
        "not proof): N/4 runs of 200 random operations on arbitrary float32 values incl. MaxFloat32/+Inf radii and "
        "coordinates up to 2^100, real ZoneSpace vs real SimpleSpace vs an independent float64 reference, ignoring entities "
        "within 4e-6*(|coords|+d) of the radius. Non-trivial = some query reported at least one entity (or a float run); "
        "distinct = distinct op sequences.")
TRUSTED_BASE = [
    "Coq 8.16.1 kernel + vm_compute (case evaluation, Example); no native_compute",
    "hand translation servers/scene/space/{zonespace,zone}.go + searchers/findplayers.go Validate -> C20/Model.v (exact integer "
    "arithmetic in a common unit; C20_scale_* justify the unit), measured by this correspondence run",
    "Go harness harness_mmo/c20 (results sorted; unit conversion float32(v)/8; entity world with a harness BaseUnit component whose "
    "type/liveness is a function of the id), harness_mmo/hx, bin/check.py JSON->Coq term printer",
    "overlay module (bin/mmo_overlay.py): copied verbatim from the repo on every run: " + ", ".join(_desc["copied"]),
    "overlay stubs (modelled, not verified): " + ", ".join(_desc["stubbed"]) +
    " - servers/scene/define/stub_space.go supplies ISpace/ISearcher (checked textually identical to scene.go on every run: "
    + "; ".join(_desc["mirrors"]) + "); modules/fight/common/stub_character.go makes ICharacter opaque (never called)",
    "modelled not verified: float32 arithmetic (exact on the generated inputs, see rule), Go maps, slices.Delete/IndexFunc, NaN inputs (excluded)",
]
ASSUMPTIONS = [
    "coordinates, radii and grid parameters are real numbers (no NaN); Init parameters satisfy zoneSize > 0, endX >= beginX, endZ >= beginZ",
    "the theorems are about exact arithmetic; float32 rounding can only matter for an entity whose distance equals the radius up to rounding, which the property text exempts",
    "hooks/C20-fix-zone-clamp-before-convert.patch is applied (before it, coordinates or pos+radius beyond ~4.6e19 select zone 0 instead of the last zone: defect F14, kept as corpus/C20.jsonl)",
    "a duplicate AddEntity is ignored by ZoneSpace but overwrites the position in SimpleSpace; the brute-force mirror is not fed duplicate adds (the Coq `brute` is the brute-force scan of ZoneSpace's own table)",
    "operations on one space are sequential (scene service goroutine)",
]
TECHNIQUE = ("Coq proof (index invariant by induction over operations; search = brute force via monotonicity of the clamped "
             "coordinate->zone map; refinement to a history function) + differential correspondence against the real "
             "ZoneSpace/SimpleSpace/FindPlayers through the mmo overlay module")
LEVEL_TEXT = ("Machine-checked Coq theorems for all histories, positions, radii and searcher filters in exact arithmetic: index "
              "agreement, search = brute force = history function, at-most-once, removed-never, no panic, indices in range. "
              "Tied to the Go code by running both on the same histories each run (id sets compared exactly on dyadic inputs), "
              "plus float-domain differential testing of ZoneSpace vs SimpleSpace vs a reference.")


def extra_coverage(cases):
    rep = mmo_overlay.LAST.get(ID) or _desc
    return {"overlay": {"copied": rep["copied"], "stubbed": rep["stubbed"], "mirrors_checked": rep["mirrors"]}}
