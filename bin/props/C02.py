ID = "C02"
N_QUICK = 1500
N_THOROUGH = 40000
MODEL_SHOW = "model_obs"
DISAGREE_IS_VIOLATION = True   # observables are exactly what the property fixes
HARNESS_TIMEOUT = 900
RULE = ("fixed: every (service type gate/chat/room/unknown) x (method behaviour echo, fail, panic, never completes, "
        "notify-shaped, unknown method, unknown group, REGISTERED METHOD UNDER A SPELLING THAT IS NOT REGISTERED (the Go method name, upper case, a capitalised group: handlers are registered under the name function's spelling only - MMisspelt: an unknown method, exactly one error response, the handler is not invoked; request- and notify-shaped methods, requests and notifications, front-local and forwarded, both serializers; 1/12 of the random routes), a successful result with ONLY DEFAULT-VALUED FIELDS (MZero: '{}' under JSON, ZERO BYTES under protobuf - a success, relayed with its flag AND its empty payload), undecodable payload, successful result the serializer cannot encode (+Inf float), successful result whose encoding PANICS (user MarshalJSON dereferencing nil), asynchronous completion (echo / unencodable result / result whose encoding panics, completed in a later turn of the service)) combination once as request and once as notification, "
        "for an unbound routing key and for keys naming chat-1, chat-2, an instance of the wrong type, a missing instance; the six "
        "malformed routes; connect-while-the-front-is-busy followed at once by forwarded requests (F12); the same request id in flight "
        "twice to different instances; close with requests pending at a back-end; id 2^32-1; BOTH CLIENT SERIALIZERS (OProto switches node/client/impls/config to protobuf for the case - every harness method has a protobuf twin carrying the same argument; the whole behaviour matrix once under protobuf, 1/4 of the random cases); UNDECODABLE MESSAGES (HBadMsg: a well-framed Data packet whose message cannot be decoded - gzip flag with a body that is no zlib stream, as request and as notification; a compressed route code in no dictionary; a route length beyond the packet; an invalid message type - the server ends the connection: nothing of it is answered afterwards, earlier answers stay, other connections are undisturbed; a server that keeps the connection is reported as a response under request id 0, which no model produces; in the handshake state the packet is ignored like every data packet); NOTIFY-THEN-GONE (HGone: after a drain the front-ends' goroutines are occupied for 25-45 ms while the client sends 1-6 notifications - front-local, forwarded to room-1 and to the keyed chat instance, notify- and request-shaped methods, asynchronous completion, both serializers - and closes its socket at once: the network side has marked the session closed when the service handles them; each must reach its handler exactly once; 1/3 of the random closes, 1/6 are undecodable messages); PROTOCOL STATE MACHINE: a second Handshake packet, its ack and heartbeats at any moment of an established connection, with a forwarded request parked / a relayed reply / an asynchronous completion / a time-out produced before the ack, and data packets sent in the handshake state (ignored by the server); SESSION-ID REUSE: every connection is handed an explicit numeric session id through the allocator hook (largest id 2^32-1, the wrap that skips 0, small ids), a connection parks a request at a never-answering back-end handler and closes, a new connection receives the recycled id and uses the same request id, then the time-out arrives; PIPELINED BURST WITH A NON-READING CLIENT: the client stops reading for 1.5 s and pipelines 11000 front-local + 1500 forwarded requests with 4 kB responses (thorough: up to 13000 x 8 kB and 11000 forwarded), >9999 responses pending on one connection (the run tags whether the send queue actually filled: it did), then reads: exactly one response per request id. random: 1-3 connections, 2-60 pipelined "
        "client actions (request 50%, notify 18%, set-routing-key 20%, advance clock past the 30 s forward time-out 3%, re-handshake / ack / heartbeat 2%, close 4%), routes "
        "drawn over all types/behaviours incl. malformed, ids incl. duplicates and varint boundaries. Connections get fresh, recycled (50% when a closed one exists) or - rarely - live-clashing (ignored) session-id slots; half of the closes are preceded by a request parked at a silent back-end handler. Every case ends with a drain, a clock "
        "advance and a sentinel round trip on every open connection. Non-trivial = at least one response was received; distinct = distinct op lists.")
TRUSTED_BASE = [
    "Coq 8.16.1 kernel + vm_compute (case evaluation, Examples); no native_compute",
    "hand translation handler.go Process/tryCallCol/ProcessForwardMsg, forwarder.go Forward + relay callback, sessionsimpl.go ProcessMessage, builtin/system.go Call/Notify, session.go ResponseMID, actorex/service checkExpired -> C02/Model.v (REPAIRED code: hooks/C02-fix-*.patch, incl. C02-fix-forwarded-marshal-error and C02-fix-async-marshal-panic), measured by this correspondence run",
    "abstractions (modelled, not verified here): the front's pending-request table = one callback slot per forwarded request (id uniqueness is C01's theorem); protoactor local send = the message is in the target's mailbox (one hop per EDeliver); apimapper CallWithSerialize/CallMethod/SafeCall as the behaviour enum of Model.v (C13); route functions and the instance table as arbitrary functions rf/itype (C07); JSON payloads and error strings opaque (a response is (id, error flag, payload class))",
    "Go harness harness/e2e (in-process node, raw pomelo client on pomelonet codec packages, quiescence = sentinel round trips + mailbox/scheduler barriers until a full pass sees no activity) and harness/c02; verif hooks common.VerifSetNowMs and actorex/service VerifCheckExpired (hooks/C01-hook-service-export.patch); bin/check.py term printer",
    "TCP on localhost, Go channels, goroutine scheduling: exercised, not modelled",
]
ASSUMPTIONS = [
    "client request ids are in (0, 2^32): ClientMsg.ClientReqId is uint32(msg.ID), an id >= 2^32 would be answered under its low 32 bits (a Request frame with id 0 or a multiple of 2^32 is treated as a notification)",
    "the id allocator never hands a new connection the numeric id of a LIVE connection (such a connect is ignored in model and harness; uniqueness among live sessions is C05's subject); ids of closed connections are reused freely",
    "late arrival after close + id reuse is exercised through the 30 s time-out of a parked request (same relay closure as a late genuine reply; late replies as such are covered by the theorems' arbitrary delivery schedules, not by the harness schedule)",
    "a client frame is processed while its session exists (frames racing with the removal of their own session are C05's subject: Process(nil, msg))",
    "handlers complete at most once (completion twice = C13 / F11) and complete synchronously or never in the harness; a front-local handler that keeps its completion forever is not answered (user code; excluded by `expected <> None`)",
    "theorem C02_relayed_unchanged needs `calm`: the clock crosses a forward deadline only when no reply is in flight; otherwise the one response may be the time-out error (C02_one_response / C02_source cover that case)",
    "data packets a client sends between a re-handshake and its ack never become requests (session.go processPacket ignores them while status < working): Corr.prep removes them from the history; the harness does send them",
    "a connection in the handshake state cannot answer the driver's sentinel: its drain waits until its send queue is empty and the client stopped receiving (1 ms polls)",
    "the client serializer is a configuration of the whole case (process-wide setting, switched only while nothing is outstanding); a response's payload is compared as a class: a reply of instance i with tag t / no content ('{}' resp. zero bytes) / an error",
    "an undecodable message is modelled as the close of its connection (Corr.expand: HBadMsg c -> OClose c); HGone is its notifications followed by the close - the driver drains before both, so no request of that connection is outstanding whose response the departing client could miss",
    "time-outs are crossed with the virtual clock and an explicit expiry scan (VerifCheckExpired); the 1 s real timer that normally triggers the scan is not waited for",
]
TECHNIQUE = "Coq proof (one inductive invariant over all interleavings of client operations and message deliveries, refinement to history functions `ledger`/`expected`) + differential correspondence against a real in-process node driven by a raw TCP client"
LEVEL_TEXT = ("Machine-checked Coq theorems over ALL event lists (client operations of several connections interleaved with arbitrary deliveries, time-outs and closes) and ALL route functions: "
              "exactly one response per request on its connection with its id (never two in any reachable state), produced locally iff the route names the front's type, otherwise the selected instance's reply unchanged - error flag and payload, an empty successful payload included "
              "(or the time-out error), every unservable request answered with an error, notifications never answered and handed to the handler exactly once, nothing written after close. "
              "The model is of the REPAIRED code (three fixes delivered as hooks/C02-fix-*.patch; the failing histories stay in corpus/C02.jsonl); it is tied to the Go code by running both on the same histories each run and comparing every response (id, error flag, producing instance, tag) and every handler invocation.")


def finding_signature(case):
    """F19 (forwarded request whose handler result cannot be encoded was answered with an EMPTY
    SUCCESS response): repaired by hooks/C02-fix-forwarded-marshal-error.patch.  Until that patch
    is in /repo an `open` known_findings entry with this signature keeps the unchanged tree
    passing; it matches only histories whose sole anomaly is that: a forwarded MUnenc request
    (never a front-local one) answered once, without error flag, with an empty payload."""
    try:
        fwd, local = set(), False
        for o in case["ops"]:
            if isinstance(o, dict) and "OReq" in o:
                c, mid, r, tag = o["OReq"]
                if isinstance(r, dict) and "RT" in r and r["RT"][1] == "MUnenc":
                    if r["RT"][0] == 0:
                        local = True
                    else:
                        fwd.add((c, mid))
        if local or not fwd:
            return None
        conns = case["obs"][""][0]
        hit = False
        for cr in conns:
            c, rs = cr[""]
            for r in rs:
                mid, err, pl = r["Resp"]
                if (c, mid) in fwd:
                    if err is False and pl == "PNone":
                        hit = True
        return "OReq:forwarded:MUnenc:empty-success" if hit else None
    except Exception:
        return None
