ID = "C14"
N_QUICK = 600
N_THOROUGH = 12000
MODEL_SHOW = "show"   # the model with the default schedule of released loops (Corr.agree follows the observed one)
DISAGREE_IS_VIOLATION = True   # observables are exactly what the property fixes
HARNESS_TIMEOUT = 600
RULE = ("service (cases starting with OSvc: the manager of a REAL runservice.StandardRunService, owner = its loop goroutine, "
        "identified by runtime.Stack; a second, independent service runs alongside): lifecycle = {created and due before Start, "
        "waiting long before Start, created before / due after Start, not waited for, cancelled before Start while queued / armed, "
        "never started, pre-start timer's callback creates; busy loop with expiries queueing up, cancel of a queued expiry by the busy "
        "owner / from another callback; Stop() by a foreign goroutine and by a task of the loop itself x {idle, expiries queued, "
        "then create+cancel after Stop and after the loop's end, queued callback creates a timer during teardown, long timer armed}, "
        "Stop() from inside a timer callback (own / then create / of a pre-start timer), releases after the loop's end} x "
        "{one-shot, repeating} x {callback panics or not} x durations {0,1,3} ms, each followed by two more wait+release rounds and "
        "a 6 ms grace period; exhaustive-svc: every op sequence of length <= 2 (quick) / 4 (thorough) over an 8-op alphabet (create "
        "repeating, create panicking one-shot, cancel 0, wait, Start, release, Stop foreign, Stop by own task); random-svc: 2-30 ops "
        "with callback programs (cancel / create nested / panic / Stop). bare (owner = harness goroutine of a timer.NewTimerMgr()): "
        "extreme durations (OCreateNs, nanoseconds, any int64): {0, -1 ns, -5 ms, math.MinInt64, 1 ns, 999999 ns, 1 ms, 1 ms + 1 ns, 2.5 ms, "
        "1000 s, 100 years, MaxInt64 - 1 ms, - 1 ms + 1 ns, - 999999 ns, - 999998 ns, - 1 ns, MaxInt64} x {one-shot, repeating} x {panic or "
        "not} x {three expiry+Do rounds, real wait then cancel, cancel at once, created late, Stop}, each with a repeating bystander: what "
        "is due fires (never early, repeating ones once per round), a timer asked for >= 1000 s delivers nothing through the real waits "
        "of the case, stays armed and can be cancelled (any callback of it counts as early); capacity: the queue channel (capacity 999) at and beyond capacity while the owner does not read it for 1.3-1.4 s (quick: 999 one-shots + a one-shot + a panicking repeating timer; 1100 mixed one-shot/repeating timers created in a loop (OCreateN); thorough adds 998/999/1000/1001/1500 one-shot and repeating timers with stalls of 1.6-3.5 s and cancels during the stall), then the owner drains everything and three more expiry+Do rounds: every timer must be delivered and run, one-shots once, repeating ones again and again; placement: every cancel placement (none / armed / expiry queued / inside own callback / after the first callback / "
        "second expiry queued / from another timer's callback with the target queued or re-armed / twice / unknown id / "
        "callback creates a timer / Stop) x {one-shot, repeating} x {callback panics or not} x {with, without a repeating "
        "bystander} x durations {0,1,3} ms, each followed by two more expiry+Do rounds and a 6 ms grace period; "
        "exhaustive: every op sequence of length <= 3 (quick) / 4 (thorough) over a 7-op alphabet (create repeating, create "
        "panicking one-shot, cancel 0, cancel 1, settle, do-all, do 0); random: 2-30 ops over <= ~8 timers, durations 0-5 ms, "
        "callback programs (cancel self / cancel other / create nested / panic), occasional Stop. Non-trivial = at least one "
        "callback ran on the real Mgr or a Cancel hit a live timer (armed, queued or inside its callback) or Start()/Stop() found expiries "
        "queued; distinct = distinct op sequences.")
TRUSTED_BASE = [
    "Coq 8.16.1 kernel + vm_compute (case evaluation, Example); no native_compute",
    "hand translation utils/timer/timer.go (Mgr.After/AddTimer/Cancel/doLater/Do/do/Stop) and of the owner's life cycle in "
    "utils/runservice (NewStandardRunService, StandardRunService.Start/Stop, addTimerSelector, RunService.loop/Stop, the random choice "
    "of reflect.Select among ready channels = steps in any order) -> C14/Model.v, measured by this correspondence run",
    "schedules of a released service loop (order in which it takes queued expiries, expiries arriving while it runs, how many it still "
    "takes after Stop() before it sees the close signal) are NOT predicted: Corr.agree runs the model along the schedule read off the "
    "implementation's own callback records (Model.follow) and compares everything else; C14_monitor_accepts_model holds for every schedule",
    "a released loop that never finds its queue empty (expiries arriving as fast as the driver releases it, on a loaded machine) is "
    "parked again after 120 rounds / 40 ms with what is left still queued; the observation says so (BRanCut) and the model then does not "
    "require the rest to have been run in that release (it stays queued and is required later)",
    "service harness: the loop is parked in a scheduler task whenever the driver acts (busy owner); the driver looks at the queue while "
    "nobody drains it by taking the entries out and putting the same objects back in order (scan); it never calls Do",
    "ASSUMED about the Go runtime (the only environment assumption, enabling condition of step SFireCheck): a function given to "
    "time.AfterFunc(d, f) is not started before d has elapsed on the monotonic clock, and is started at most once per AfterFunc call",
    "modelled not verified: Obj.Canceled / Mgr.running are plain bools shared between the owner and the AfterFunc goroutines (modelled "
    "sequentially consistent; the harness is built without the race detector), sync.Map as a map, chan *Obj as a bag: the channel holds at most 999 "
    "of the sent-but-not-done expiries, the owner's receive (SRecv) frees a slot, a sender on a full channel blocks; the owner may Do received "
    "expiries in any order (FIFO is the special case SDoNext). Which senders block on a full channel is not predicted (and not observed): only that all deliver",
    "Go harness harness/c14 (owner goroutine per case, queue length polling, arming time stamps taken before the arming call, "
    "goroutine identity parsed from runtime.Stack), bin/check.py JSON->Coq term printer",
    "model steps between the two halves of the AfterFunc function (SFireCheck / SFireSend) are covered by the theorems but cannot be "
    "placed by the harness without hooks; the harness reaches them only by chance",
]
ASSUMPTIONS = [
    "After/AddTimer/Cancel/Do of one Mgr are called from its owner goroutine only (StandardRunService's selector loop), callbacks "
    "included; before Start() and after the loop's end (no owner goroutine) from the goroutine that creates / tears down the service; "
    "Stop() may come from any goroutine",
    "Start() once, Stop() once and after Start() (Stop twice panics: close of closed channel; Start twice starts two loops): not driven",
    "what the property text says about an expiry still queued when Stop() is called: nothing beyond the goroutine clause - it may be "
    "run by the loop goroutine before that goroutine ends, or never; it must not run on any other goroutine, nor after the loop's end "
    "(theorems C14_callbacks_within_owner_life, C14_nothing_after_loop_end; reflect.Select makes the real loop do either)",
    "a callback that stops its own service does so before it arms anything (generator discipline; an expiry racing that Stop() is not observable)",
    "durations are any time.Duration (int64 ns), including negative ones and math.MaxInt64; timer ids do not wrap (uint64 counter)",
    "a timer asked for Model.far = 10^12 or more (ns: 1000 s; ms: 31 years) is 'never' on the time scale of a case: Settle / Wait do not "
    "wait for it and the model does not expire it (C14_never_early_args covers every duration; the harness observes that nothing is "
    "delivered during the real waits of the case)",
    "AddTimer with a duration <= 0 is a one-shot in timer.go (Obj.Duration > 0 decides re-arming); the theorems call a timer repeating iff rep && d > 0",
    "progress statements assume the queue channel (capacity 999) is not full and Mgr.Stop() has not been called",
]
TECHNIQUE = ("Coq proof (small-step interleaving model of timer.Mgr with owner, clock and runtime-expiry steps; inductive invariant over all "
             "step lists; life cycle of the owner as part of the state) + differential correspondence and trace monitor against the real "
             "timer.Mgr driven with millisecond timers, bare and as the TimerMgr of a real StandardRunService")
LEVEL_TEXT = ("Machine-checked Coq theorems over ALL interleavings of owner steps (create, cancel, stop, begin/continue/finish a callback), "
              "clock steps and runtime expiry steps: never-after-cancel, never-early, args, at most one callback per arming (one-shot at most "
              "once, exactly once when its expiry is queued and done), re-arm after every completed or panicked callback of a live repeating "
              "timer and an n-fold firing theorem, panic = early return; owner life cycle: callbacks only by the Do of the draining goroutine "
              "while it is alive (never by Start/Stop/create/cancel, whoever calls them), only between Start and the loop's end, nothing "
              "after the loop's end, expiries before Start wait in order and run after Start (once / again and again). The model is tied to the Go code by running the real Mgr on the same "
              "op lists each run; any difference in queued expiries or callbacks (index, count, args, early, after-cancel, goroutine) is reported with the shrunk history.")


def shrink_candidates(ops):
    """smaller op lists, big removals first; the world marker OSvc (first op) is never removed,
    so a service case stays a service case"""
    keep = 1 if ops and isinstance(ops[0], dict) and "OSvc" in ops[0] else 0
    body = ops[keep:]
    out, seen = [], set()
    n = len(body)
    chunk = max(1, n // 2)
    while chunk >= 1 and n > 0:
        for i in range(0, n, chunk):
            c = ops[:keep] + body[:i] + body[i + chunk:]
            key = repr(c)
            if len(c) < len(ops) and len(c) > keep - 1 and key not in seen:
                seen.add(key)
                out.append(c)
        if chunk == 1:
            break
        chunk = max(1, chunk // 2)
    return out
