ID = "C14"
N_QUICK = 600
N_THOROUGH = 12000
MODEL_SHOW = "run"
DISAGREE_IS_VIOLATION = True   # observables are exactly what the property fixes
HARNESS_TIMEOUT = 600
RULE = ("capacity: the queue channel (capacity 999) at and beyond capacity while the owner does not read it for 1.3-1.4 s (quick: 999 one-shots + a one-shot + a panicking repeating timer; 1100 mixed one-shot/repeating timers created in a loop (OCreateN); thorough adds 998/999/1000/1001/1500 one-shot and repeating timers with stalls of 1.6-3.5 s and cancels during the stall), then the owner drains everything and three more expiry+Do rounds: every timer must be delivered and run, one-shots once, repeating ones again and again; placement: every cancel placement (none / armed / expiry queued / inside own callback / after the first callback / "
        "second expiry queued / from another timer's callback with the target queued or re-armed / twice / unknown id / "
        "callback creates a timer / Stop) x {one-shot, repeating} x {callback panics or not} x {with, without a repeating "
        "bystander} x durations {0,1,3} ms, each followed by two more expiry+Do rounds and a 6 ms grace period; "
        "exhaustive: every op sequence of length <= 3 (quick) / 4 (thorough) over a 7-op alphabet (create repeating, create "
        "panicking one-shot, cancel 0, cancel 1, settle, do-all, do 0); random: 2-30 ops over <= ~8 timers, durations 0-5 ms, "
        "callback programs (cancel self / cancel other / create nested / panic), occasional Stop. Non-trivial = at least one "
        "callback ran on the real Mgr or a Cancel hit a live timer (armed, queued or inside its callback); distinct = distinct op sequences.")
TRUSTED_BASE = [
    "Coq 8.16.1 kernel + vm_compute (case evaluation, Example); no native_compute",
    "hand translation utils/timer/timer.go (Mgr.After/AddTimer/Cancel/doLater/Do/do/Stop) -> C14/Model.v, measured by this correspondence run",
    "ASSUMED about the Go runtime (the only environment assumption, enabling condition of step SFireCheck): a function given to "
    "time.AfterFunc(d, f) is not started before d has elapsed on the monotonic clock, and is started at most once per AfterFunc call",
    "modelled not verified: Obj.Canceled / Mgr.running are plain bools shared between the owner and the AfterFunc goroutines (modelled "
    "sequentially consistent; the harness is built without the race detector), sync.Map as a map, chan *Obj as a bag: the channel holds at most 999 "
    "of the sent-but-not-done expiries, the owner's receive (SRecv) frees a slot, a sender on a full channel blocks; the owner may Do received "
    "expiries in any order (FIFO is the special case SDoNext). Which senders block on a full channel is not predicted (and not observed): only that all deliver",
    "Go harness harness/c14 (owner goroutine per case, queue length polling, arming time stamps taken before the arming call, "
    "goroutine identity parsed from runtime.Stack), bin/check.py JSON->Coq term printer",
    "model steps between the two halves of the AfterFunc function (SFireCheck / SFireSend) are covered by the theorems but cannot be "
    "placed by the harness without hooks; the harness reaches them only by chance",
]
ASSUMPTIONS = [
    "After/AddTimer/Cancel/Stop/Do of one Mgr are called from its owner goroutine only (StandardRunService's selector loop), callbacks included",
    "durations fit time.Duration; timer ids do not wrap (uint64 counter)",
    "AddTimer with a duration <= 0 is a one-shot in timer.go (Obj.Duration > 0 decides re-arming); the theorems call a timer repeating iff rep && d > 0",
    "progress statements assume the queue channel (capacity 999) is not full and Mgr.Stop() has not been called",
]
TECHNIQUE = ("Coq proof (small-step interleaving model of timer.Mgr with owner, clock and runtime-expiry steps; inductive invariant over all "
             "step lists) + differential correspondence and trace monitor against the real timer.Mgr driven with millisecond timers")
LEVEL_TEXT = ("Machine-checked Coq theorems over ALL interleavings of owner steps (create, cancel, stop, begin/continue/finish a callback), "
              "clock steps and runtime expiry steps: never-after-cancel, never-early, args, at most one callback per arming (one-shot at most "
              "once, exactly once when its expiry is queued and done), re-arm after every completed or panicked callback of a live repeating "
              "timer and an n-fold firing theorem, panic = early return. The model is tied to the Go code by running the real Mgr on the same "
              "op lists each run; any difference in queued expiries or callbacks (index, count, args, early, after-cancel, goroutine) is reported with the shrunk history.")
