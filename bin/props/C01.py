ID = "C01"
N_QUICK = 500
N_THOROUGH = 12000
MODEL_SHOW = "run"
DISAGREE_IS_VIOLATION = True   # observables are exactly what the property fixes
HARNESS_TIMEOUT = 600
RULE = ("every request / notification reaches the peer in one of six ways chosen by the op `Via` (direct PID; app.Request / "
        "app.Notify routed by node/app's default route to the API method remote.Park / remote.Note; routed by a registered route "
        "function from a map parameter to a missing method (the peer's APIDispatcher answers 'no method') or to a notify-shaped "
        "method (never answered); app.QuerySession; app.Kick), and 'no route target' is produced in six ways (unknown service name, "
        "malformed route, route function yielding nothing / an unknown name, QuerySession / Kick for an unknown front); the peer "
        "answers through the dispatcher's completion closure + Service.Response when it can; a response is either an ANSWER "
        "(code, error text, return value handed to Service.Response: nil / typed nil pointer / TestHello{I,S} / EmptyArg) or a RAW "
        "ServiceResponse given field by field (ErrCode, ErrInfo, Type in none/TestHello/EmptyArg/unregistered, Body = encoding of "
        "(I,S) - ZERO bytes when both are default - or junk), and the observation of a callback is the whole (err, msg) pair: which "
        "error and its text, whether a message came with it, the message's dynamic type and every field; "
        "fixed: 44 value histories = every answer {code 0, 999, -1} x {empty, non-empty text} x {nil, typed nil, all-default, "
        "string only, int only, both, MinInt32 + 300-byte string, EmptyArg} through Service.Response / the API completion closure / "
        "QuerySession, and every raw response {code 0, 999, -1} x {text} x {4 types} x {empty, string only, int only, both, junk}, "
        "each followed by a duplicate of another kind; "
        "fixed: 12 routed histories (2 per way), 13 boundary histories (deadline = now / now-1 / now+1, id allocator at MaxReqId-1 and MaxReqId, late and "
        "duplicate replies, suppressed replies, undecodable bodies, nested no-route callbacks), 1 (quick) / 4 (thorough) histories "
        "scanned by the REAL 1 s timer; exhaustive: every op sequence of length <= 3 (quick) / 4 (thorough) over an 8-op alphabet "
        "(request, re-entrant request, notify, the ALL-DEFAULT reply (zero-byte body) for id 1, remote error for id 2, advance 30000, advance 1, tick) followed by "
        "a completing suffix; random: 1-70 ops, up to ~40 outstanding requests, callback programmes nested to depth 2 (requests, "
        "unserialisable requests, notifies, no-route requests issued from inside callbacks), replies aimed at pending / completed "
        "(late, duplicate) / unknown ids with answers (58%: value fields default a third of the time, ints at 1/-1/127/128/Min/MaxInt32, "
        "strings empty / ascii / multi-byte / >127 bytes, nil, typed nil, EmptyArg, success with a stray error text), remote errors "
        "(20%: codes 999/1/-1/1000/Min/MaxInt32, empty text in 1/5, a return value alongside in 3/10) and raw responses (22%: any "
        "code/text/type/body combination: typed with empty body, body without type, error code with type and body, unknown type, "
        "junk), clock steps "
        "aimed at deadline-1/deadline/deadline+1, allocator started at MaxReqId-3..MaxReqId in 1/4 of the cases, 60% completed by "
        "scans after every deadline. Non-trivial = at least one request was completed by a callback other than NoService; "
        "distinct = distinct op sequences.")
TRUSTED_BASE = [
    "Coq 8.16.1 kernel + vm_compute (case evaluation, C01_wrap_refuted, Examples); no native_compute",
    "hand translation actorex/service/service.go (doRequestEx, AllocReqId, handleResponse, checkExpired, tryStartCheckTimer, ResponseEx) "
    "and node/app/serviceutils.go Request / Notify / QuerySession / Kick (routed and no-target branches) -> C01/Model.v, measured by "
    "this correspondence run; of the responding side ResponseEx's field encoding (Model.encode) and reply suppression are modelled, "
    "api.go APIDispatcher and utils.go DirectSendNotify are driven for real by the scripted peer but are not part of the model: to "
    "the model a routed request is a request",
    "Go harness harness/c01 (actor driver: ops as messages through the service mailbox, scripted peer service, sender middleware "
    "recording sends, closures recording callbacks), verif hook actorex/service/verif_export.go, bin/check.py JSON->Coq term printer",
    "the order in which Go's map iteration yields expired requests inside one checkExpired is taken from the implementation's own "
    "trace (Corr.with_hints); the theorems hold for every order",
    "modelled not verified: protoactor (local Send = post to the target mailbox, FIFO per mailbox; supervision), cell2's mailbox and "
    "runservice loop (C09/C04), utils/timer (the armed 1 s timer calls checkExpired: sampled by the realtimer cases, otherwise the "
    "harness fires the scan itself through VerifCheckExpired when the timer is armed), protobuf wire format (Model.v abstracts a body "
    "to the two field values it encodes - zero bytes for the all-default message - or junk; remote.Serialize / Deserialize and the "
    "type registry are driven for real, with the two test messages TestHello{I int32; S string} and EmptyArg), texts as numbers "
    "(injective maps in the harness, 0 = empty), int32 ids and field values as Z",
    "measured, not proved: every callback and every operation ran on the goroutine of the service loop (runtime.Stack goroutine id), "
    "reported as the onloop bit of each observation and required by the monitor",
]
ASSUMPTIONS = [
    "Request/Notify are called inside the service's own context (the code comments require it); the harness does so",
    "freshness guard: no request is registered under an id that is still pending; by C01_clash_needs_wrap this can only fail after "
    "MaxReqId = 0x7FFFFFF0 further requests were issued while one stayed pending (within its 30 s deadline); C01_wrap_refuted shows "
    "the lost callback when it does fail",
    "user callbacks do not panic (a panic restarts the actor, which drops the pending table)",
    "the model is of the repaired code (hooks/C01-fix-arm-timer-on-register.patch, hooks/C01-fix-response-unknown-type.patch)",
    "the virtual clock common.VerifSetNowMs replaces wall-clock time; time never runs backwards",
    "code as it is: a body that fails to parse completes the callback with the decode error TOGETHER WITH the partially filled "
    "message proto.Unmarshal leaves behind (class RBad true); callers must test err before msg",
]
TECHNIQUE = ("Coq proof: executable model of the pending-request table decomposed into primitive transitions; an executable trace "
             "acceptor proved sound for the property's trace clauses (at most once, matching, discard, drain) and proved to accept "
             "every guard-respecting model trace (simulation), plus timer / scan-completeness / wrap-around lemmas; differential "
             "correspondence of the model against the real service.Service in a local actor system, and the acceptor run on the "
             "implementation's own event trace")
LEVEL_TEXT = ("Machine-checked Coq theorems over ALL operation lists (all interleavings of requests, re-entrant callbacks, replies, "
              "duplicates, late and unknown replies, clock steps and expiry scans in any map-iteration order): at most one callback "
              "per request, result matching, the callback's (err, msg) value = the decoding of the completing response's fields "
              "(nil only for an untyped response, all-default / typed-nil replies arrive as the non-nil zero message, an error code "
              "carries its text and no message), discard without effect, |pending| = issued - completed, exactly-once and empty table in "
              "complete histories, timer armed while anything is pending, id wrap-around guard. The model is tied to the Go code by "
              "running both on the same histories each run; 'callback runs in the service context' is a goroutine-id measurement.")


def extra_coverage(cases):
    """measured part of the property: callbacks on the service loop goroutine"""
    ncb = off = 0
    for c in cases:
        for o in c.get("obs") or []:
            a = o.get("Obs") if isinstance(o, dict) else None
            if not a:
                continue
            n = sum(1 for e in a[0] if isinstance(e, dict) and "ECb" in e)
            ncb += n
            if not a[5]:
                off += 1
    return {"measurement_callbacks_observed": ncb, "measurement_ops_off_loop_goroutine": off}
