ID = "C01"
N_QUICK = 400
N_THOROUGH = 12000
MODEL_SHOW = "run"
DISAGREE_IS_VIOLATION = True   # observables are exactly what the property fixes
HARNESS_TIMEOUT = 600
RULE = ("every request / notification reaches the peer in one of six ways chosen by the op `Via` (direct PID; app.Request / "
        "app.Notify routed by node/app's default route to the API method remote.Park / remote.Note; routed by a registered route "
        "function from a map parameter to a missing method (the peer's APIDispatcher answers 'no method') or to a notify-shaped "
        "method (never answered); app.QuerySession; app.Kick), and 'no route target' is produced in six ways (unknown service name, "
        "malformed route, route function yielding nothing / an unknown name, QuerySession / Kick for an unknown front); the peer "
        "answers through the dispatcher's completion closure + Service.Response when it can; a response is either an ANSWER "
        "(code, error text, return value handed to Service.Response: nil / typed nil pointer / TestHello{I,S} / EmptyArg) or a RAW "
        "ServiceResponse given field by field (ErrCode, ErrInfo, Type in none/TestHello/EmptyArg/unregistered, Body = encoding of "
        "(I,S) - ZERO bytes when both are default - or junk), and the observation of a callback is the whole (err, msg) pair: which "
        "error and its text, whether a message came with it, the message's dynamic type and every field; every response also carries a "
        "GHOST: the op names the request the peer is to answer (its tag; 60% of the answers to pending requests, every answer aimed at "
        "a request of a replaced incarnation; -1 = whichever request it received last under that id), the peer - which keeps all "
        "request objects it received by tag - answers that very object through the real path, and the event reports the tag of the "
        "object it did answer (-1 for hand-made responses); histories in which the live incarnation has a request under the id of an "
        "older incarnation's request that the peer answers (open finding F24, the monitor fails) are kept few and short: the corpus "
        "line corpus-F24 and about one random history per quick run; "
        "fixed: 44 value histories = every answer {code 0, 999, -1} x {empty, non-empty text} x {nil, typed nil, all-default, "
        "string only, int only, both, MinInt32 + 300-byte string, EmptyArg} through Service.Response / the API completion closure / "
        "QuerySession, and every raw response {code 0, 999, -1} x {text} x {4 types} x {empty, string only, int only, both, junk}, "
        "each followed by a duplicate of another kind; "
        "the op `Crash` makes a handler of the REQUESTING service panic (a user message whose handler panics): the supervisor "
        "restarts the actor, the producer builds a fresh Service; every incarnation's Service object is kept and observed (pending "
        "ids and timer flag per incarnation), callbacks act through the incarnation that issued their request, a Tick fires the "
        "scan of every incarnation whose timer is armed (oldest first) and the realtimer histories let the real 1 s timers of "
        "replaced incarnations do it; "
        "MANY outstanding requests: the bulk action ARep n a (= the action a, n times: C01_bulk_is_n_singles) issues n requests with the "
        "same callback programme in one operation; fixed bulk histories: n = 1, 2, 100, 1023, 1024 (quick) + 1025, 3000 (thorough) "
        "requests that all expire in ONE scan, each timeout callback issuing a follow-up request from inside the scan, then replies for "
        "the first and the last follow-up, a reply for an id that timed out, and a later expiry for the rest; bulks with follow-ups only "
        "at some positions of the scan (60+5+3 quick, 1020+5+3 and 2000+50+3 thorough, the retrying programme also notifying and issuing "
        "a no-route request) and two big scans around a restart (thorough); "
        "fixed: 19 restart histories (requests outstanding at the restart, replies after it - unknown to the live incarnation or "
        "hitting a request of its own under the reused id -, retries from a replaced incarnation's timeout callbacks, restarts in "
        "a row, at the deadline boundary, at the allocator wrap, with unserialisable / no-route requests, through all six ways of "
        "reaching the peer), 12 routed histories (2 per way), 13 boundary histories (deadline = now / now-1 / now+1, id allocator at MaxReqId-1 and MaxReqId, late and "
        "duplicate replies, suppressed replies, undecodable bodies, nested no-route callbacks), 2 (quick) / 6 (thorough) histories "
        "scanned by the REAL 1 s timers (one / two with restarts); exhaustive: every op sequence of length <= 3 (quick) / 4 (thorough) over a 9-op alphabet "
        "(request, re-entrant request, notify, the ALL-DEFAULT reply (zero-byte body) for id 1, remote error for id 2, advance 30000, advance 1, tick, restart) followed by "
        "a completing suffix; random: 1-70 ops, up to ~40 outstanding requests, callback programmes nested to depth 2 (requests, "
        "unserialisable requests, notifies, no-route requests issued from inside callbacks), replies aimed at pending / completed "
        "(late, duplicate) / unknown ids with answers (58%: value fields default a third of the time, ints at 1/-1/127/128/Min/MaxInt32, "
        "strings empty / ascii / multi-byte / >127 bytes, nil, typed nil, EmptyArg, success with a stray error text), remote errors "
        "(20%: codes 999/1/-1/1000/Min/MaxInt32, empty text in 1/5, a return value alongside in 3/10) and raw responses (22%: any "
        "code/text/type/body combination: typed with empty body, body without type, error code with type and body, unknown type, "
        "junk), clock steps "
        "aimed at deadline-1/deadline/deadline+1 of any incarnation, allocator started at MaxReqId-3..MaxReqId in 1/4 of the cases, up to 3 "
        "restarts per history (22% of the random histories restart, 16% with requests outstanding) followed by replies to requests "
        "of replaced incarnations, 60% completed by "
        "scans after every deadline. Non-trivial = at least one request was completed by a callback other than NoService; "
        "distinct = distinct op sequences.")
TRUSTED_BASE = [
    "Coq 8.16.1 kernel + vm_compute (case evaluation, C01_wrap_refuted, Examples); no native_compute",
    "hand translation actorex/service/service.go (doRequestEx, AllocReqId, handleResponse, checkExpired, tryStartCheckTimer, ResponseEx) "
    "and node/app/serviceutils.go Request / Notify / QuerySession / Kick (routed and no-target branches) -> C01/Model.v, measured by "
    "this correspondence run; of the responding side ResponseEx's field encoding (Model.encode) and reply suppression are modelled, "
    "api.go APIDispatcher and utils.go DirectSendNotify are driven for real by the scripted peer but are not part of the model: to "
    "the model a routed request is a request",
    "Go harness harness/c01 (actor driver: ops as messages through the service mailbox, scripted peer service, sender middleware "
    "recording sends, closures recording callbacks), verif hook actorex/service/verif_export.go, bin/check.py JSON->Coq term printer",
    "the order in which Go's map iteration yields expired requests inside one checkExpired is taken from the implementation's own "
    "trace (Corr.with_hints, one hint per incarnation's scan); the theorems hold for every order; the order in which the timers of "
    "different incarnations fire within one second is fixed (oldest first) - they act on disjoint tables",
    "modelled not verified: protoactor (local Send = post to the target mailbox, FIFO per mailbox; supervision), cell2's mailbox and "
    "runservice loop (C09/C04), Go maps (Handlers: insert / lookup / delete / iteration in any order, len), utils/timer (the armed 1 s timer calls checkExpired: sampled by the realtimer cases, otherwise the "
    "harness fires the scan itself through VerifCheckExpired when the timer is armed), protobuf wire format (Model.v abstracts a body "
    "to the two field values it encodes - zero bytes for the all-default message - or junk; remote.Serialize / Deserialize and the "
    "type registry are driven for real, with the two test messages TestHello{I int32; S string} and EmptyArg), texts as numbers "
    "(injective maps in the harness, 0 = empty), int32 ids and field values as Z",
    "measured, not proved: every callback and every operation ran on the goroutine of the service loop (runtime.Stack goroutine id), "
    "reported as the onloop bit of each observation and required by the monitor",
]
KNOWN_FINDINGS_TEXT = (
    "F24 (open, known_findings.json; NOT an assumption): a restarted requester's fresh Service numbers its requests from 1 again "
    "while requests of the replaced incarnation are outstanding, so the peer's reply to an OLD request completes a NEW request that "
    "carries the same id.  The check sees it: a response carries, as a ghost, the tag of the request object the peer answered, and "
    "the monitor clause Spec.answers_own (a reply completes the request the peer was answering; proved for histories without "
    "restart / allocator set-up / wrap: C01_reply_answers_own_request; refuted with a restart: C01_restart_reuses_ids) fails on "
    "corpus line corpus-F24 and on the random histories tagged restart-id-reuse; finding_signature recognises exactly this kind. "
    "Proposal, not applied: hooks/C01-proposed-restart-shared-id-sequence.patch.txt; stand-alone reproduction: "
    "harness/c01/repro/restart_id_reuse_test.go.txt")
ASSUMPTIONS = [
    "Request/Notify are called inside the service's own context (the code comments require it); the harness does so",
    "freshness guard: no request is registered under an id that is still pending; by C01_clash_needs_wrap this can only fail after "
    "MaxReqId = 0x7FFFFFF0 further requests were issued while one stayed pending (within its 30 s deadline); C01_wrap_refuted shows "
    "the lost callback when it does fail",
    "user CALLBACKS do not panic (handleResponse / checkExpired delete the entry only after the callback returned: a callback that "
    "panics is run a second time by the expiry scan); a panic in any OTHER handler of the requesting service is the op Crash and is "
    "covered: the supervisor restarts the actor, nothing of the replaced incarnation is lost",
    "restart directive of the supervisor (protoactor default: restart, at most 10 times in 10 s, then stop); histories restart at "
    "most 3 times",
    "callbacks issue follow-up requests through the Service that issued the original one (the closure captured it), as user code "
    "embedding *service.Service does",
    "the model is of the repaired code (hooks/C01-fix-arm-timer-on-register.patch, hooks/C01-fix-response-unknown-type.patch)",
    "the virtual clock common.VerifSetNowMs replaces wall-clock time; time never runs backwards",
    "NOT an assumption - open known finding: " + KNOWN_FINDINGS_TEXT,
    "code as it is: a body that fails to parse completes the callback with the decode error TOGETHER WITH the partially filled "
    "message proto.Unmarshal leaves behind (class RBad true); callers must test err before msg",
]
TECHNIQUE = ("Coq proof: executable model of the pending-request table decomposed into primitive transitions; an executable trace "
             "acceptor proved sound for the property's trace clauses (at most once, matching, discard, drain) and proved to accept "
             "every guard-respecting model trace (simulation), plus timer / scan-completeness / wrap-around lemmas; differential "
             "correspondence of the model against the real service.Service in a local actor system, and the acceptor run on the "
             "implementation's own event trace")
LEVEL_TEXT = ("Machine-checked Coq theorems over ALL operation lists (all interleavings of requests, re-entrant callbacks, replies, "
              "duplicates, late and unknown replies, clock steps and expiry scans in any map-iteration order): at most one callback "
              "per request (across restarts of the requesting actor: requests outstanding at a restart are completed exactly once by the replaced "
              "incarnation's own timer, replies after the restart go to the live incarnation), result matching, the callback's (err, msg) value = the decoding of the completing response's fields "
              "(nil only for an untyped response, all-default / typed-nil replies arrive as the non-nil zero message, an error code "
              "carries its text and no message), discard without effect, |pending| = issued - completed, exactly-once and empty table in "
              "complete histories, timer armed while anything is pending, id wrap-around guard. The model is tied to the Go code by "
              "running both on the same histories each run; 'callback runs in the service context' is a goroutine-id measurement.")


def extra_coverage(cases):
    """measured part of the property: callbacks on the service loop goroutine"""
    ncb = off = 0
    for c in cases:
        for o in c.get("obs") or []:
            a = o.get("Obs") if isinstance(o, dict) else None
            if not a:
                continue
            n = sum(1 for e in a[0] if isinstance(e, dict) and "ECb" in e)
            ncb += n
            if not a[5]:
                off += 1
    return {"measurement_callbacks_observed": ncb, "measurement_ops_off_loop_goroutine": off}


# ---------------------------------------------------------------- known finding F24
F24_SIGNATURE = ("C01:F24 after a restart of the requester the reply to a request of a replaced incarnation completes "
                 "a request of a later incarnation that reuses its request id")
_SPAN = 0x7FFFFFF0 + 1


def _name_args(t):
    if isinstance(t, str):
        return t, []
    if isinstance(t, dict) and len(t) == 1:
        (n, a), = t.items()
        return n, a
    return None, []


def finding_signature(case):
    """F24_SIGNATURE iff the case violates the clause 'a reply completes the request the peer was answering' and EVERY such
    violation is of the restart kind: the response's ghost names a request g issued by an EARLIER incarnation, the callback that
    ran belongs to a request t of a LATER incarnation, and both were issued under the same request id (so a Crash lies between
    them).  Any other violation of the clause (no restart involved, different ids), a request completed twice, a pending request
    whose incarnation's timer is off or an operation off the service goroutine makes the case NOT match (returns '')."""
    try:
        issued, done, bad, f24 = {}, {}, 0, 0
        for ob in case.get("obs") or []:
            n, a = _name_args(ob)
            if n != "Obs":
                return ""
            evs, pend, arms, got, peer, onloop = a
            if not onloop:
                return ""
            for k in pend:
                inc = k // _SPAN
                if inc < 0 or inc >= len(arms) or not arms[inc]:
                    return ""
            prev = None
            for e in evs:
                en, ea = _name_args(e)
                if en == "EIssue":
                    issued[ea[0]] = (ea[1] // _SPAN, ea[1] % _SPAN)
                elif en == "ECb":
                    t, cn = ea[0], _name_args(ea[1])[0]
                    done[t] = done.get(t, 0) + 1
                    if done[t] > 1:
                        return ""
                    if prev is not None and cn not in ("RTimeout", "RNoService"):
                        g = prev
                        if g >= 0 and g != t:
                            if (g in issued and t in issued and issued[g][1] == issued[t][1]
                                    and issued[g][0] < issued[t][0]):
                                f24 += 1
                            else:
                                bad += 1
                prev = None
                if en == "EResp":
                    kn, ka = _name_args(ea[1])
                    prev = ka[0] if kn == "K" else None
        return F24_SIGNATURE if f24 > 0 and bad == 0 else ""
    except Exception:
        return ""
