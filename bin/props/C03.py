ID = "C03"
N_QUICK = 400
N_THOROUGH = 6000
MODEL_SHOW = "expected"
DISAGREE_IS_VIOLATION = True   # acceptance: every issuer's arrivals per connection = its issue log
HARNESS_TIMEOUT = 900
RULE = ("fixed: front-local [push; response] and [3 pushes; response; 2 pushes] (F8); the same on room-1; chat-1, chat-2, room-1 and the front all "
        "serving one connection; two clients on the same issuers; a request without target between others; MULTI-TARGET pushes (PushMessageByIds and channel broadcast) issued by the front and by back-ends to the requester, to the requester and other connections, to others only, with duplicate and unknown ids; BOTH CLIENT SERIALIZERS (JSON and protobuf - OProto switches node/client/impls/config for the case; 40% of the random cases) and PUSHES WITHOUT CONTENT (a message with only default-valued fields: zero bytes on the wire under protobuf, '{}' under JSON) among other pushes, front-local and forwarded, single- and multi-target; MIXED SIZES WITHIN ONE ISSUE SEQUENCE: pushes padded [0, 6000, 0] + small response and [0,0,0] + 6000-byte response on the front and on room-1; multi-target sequences cycling through 0 / 7 / 4020 / 4096 / 9000 / 66000 / 70000 bytes with big responses; the same sequences issued while the client does not read and the socket buffers are already full (2500 x 3 kB first), so that tiny and big packets sit in the send queue together; STALLED CLIENT: the client does not read for 1.2 s (thorough: up to 2.5 s) while room-1 resp. the front issues 35000 (thorough: 30000-40000) pushes of 1 kB (0.8-2 kB) and the response - the run records whether the connection's 9999-slot send queue actually filled (tag send-queue-filled, read by reflection; it did in every such case); BURSTS: room-1, the front, chat-1 and chat-2 "
        "each issuing 3000 (thorough: up to 12000) pushes + response + pushes towards ONE connection concurrently, plain and with 300 B (thorough: 4000 B) "
        "payloads, thorough also with a slow reader (5-20 us per message, the 9999-slot send queue fills and the front blocks). random: 1-3 connections "
        "(7% slow readers), 2-12 pipelined requests with 0-5 (sometimes 20-220, every 25th case 1000-3500) pushes before and 0-3 after the response, "
        "to the front / the keyed chat instance / room-1, routing key changed in between, payload padding up to 2 kB, one third of the sequences with PER-MESSAGE sizes drawn from 'no content', 0, 1, 7, 100, 900, 3900, 4020, 4040, 4096, 5000, 6000, 9000, 20000, 66000, 70000 bytes (response size too), 3% short client stalls, one third of the requests pushing through PushMessageByIds / a channel to 0-4 connections (+ the requester half of the time). Every item carries issuer, tag, its padding size (compared at the client), "
        "position and the issuer's issue counter. Non-trivial = at least one push arrived; distinct = distinct op lists.")
TRUSTED_BASE = [
    "Coq 8.16.1 kernel + vm_compute (case evaluation, Examples, the F8 witness); no native_compute",
    "hand translation impls/utils.go pushMessageByIds (REPAIRED: hooks/C03-fix-local-push-order.patch), builtin/system.go PushMsg, impls/sessions.go PushMsg, forwarder.go relay, handler.go Process, pomelonet session.go Push/ResponseMID/write -> the queue network of C03/Model.v",
    "ASSUMED by the model, MEASURED by the harness (this is why C03 is partial): the front's mailbox delivers each sender's messages in sending order (per-sender FIFO of actorex/mailbox = C09's theorem; protoactor local Send = enqueue in the caller's goroutine); a producer blocked on a full chSend (9999) / scheduler queue resumes in order; the mailbox smoothing pause only delays; TCP keeps order",
    "Go harness harness/e2e + harness/c03 (Send handler stamping issuer, tag, position and a per-instance issue counter on every push and on the response at the moment it is issued; raw client recording arrival order; run-length encoding of consecutive pushes), bin/check.py term printer",
]
ASSUMPTIONS = [
    "issuers issue from their own service goroutine (one goroutine per service: C04), so `issue order` is program order",
    "a push without content identifies nothing at the client: such pushes are matched by NUMBER per connection (nothing missing, nothing extra), the attributable items request by request and by issue counter",
    "a multi-connection push (PushMessageByIds / Channel.PushMessage with several ids) is one item per listed connection (a connection listed twice gets two copies with the same issue counter)",
    "acceptance is per issuer, connection and REQUEST (exact issued sequence), plus non-decreasing issue counters per issuer and connection across requests: the order in which one issuer serves requests of different connections is not determined by the client operations",
    "order ACROSS issuers is not constrained (any merge is accepted), nor between a front-local item and relayed items",
    "the loads reached here: <= 12000 pushes per issuer from 4 issuers concurrently (mailbox smoothing pause), and a stalled reader with 30000-40000 pushes of 0.8-2 kB (kernel buffers + the 9999-slot send queue full, producer blocked for ~1-2.5 s); larger loads are not measured",
]
TECHNIQUE = "Coq proof (invariant of a queue network under every schedule: received ++ queued ++ in mailbox ++ not yet issued = issue log, per issuer and connection; stage library: merges and FIFO stages preserve every sender's subsequence) + measurement on a real in-process node with issue counters in the payload"
LEVEL_TEXT = ("PARTIAL. Proved (machine-checked, Coq): in the queue-network model - any number of issuers, any issue logs, any schedule - the items one issuer sends to one connection arrive in issue order "
              "(prefix at every moment, equality when drained; pushes never overtake each other, a push issued before the response arrives before it), for back-end issuers and - on the repaired code - for the front's own handlers; "
              "on the code as found the front-local case is refuted by a machine-checked witness (F8, fixed by hooks/C03-fix-local-push-order.patch). "
              "NOT proved, measured each run: that the real mailbox, the blocking queues, the smoothing pause and TCP behave like the model's FIFO stages - bursts of 3000-12000 pushes from 1-3 back-ends and the front concurrently, "
              "with issue counters in every payload; the arrival sequence must restrict, per issuer, to exactly the issued sequence with strictly increasing counters.")
