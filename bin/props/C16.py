ID = "C16"
N_QUICK = 600
N_THOROUGH = 12000
MODEL_SHOW = "run"
DISAGREE_IS_VIOLATION = True   # observables are exactly what the property fixes
RULE = ("exhaustive: every op sequence of length <= 3 (quick) / 5 (thorough) over a 7-op alphabet "
        "(adds incl. duplicate, leaves, delete, push) followed by a push; random: 1-60 ops over <=3 channels, "
        "<=3 fronts, <=5 ids with removals aimed at first/middle/last position; front-end deliveries with registered-but-closed connections (Push fails) anywhere in the id list. Non-trivial = some push listed "
        "at least one id, or a front-end delivery had live ids; distinct = distinct op sequences.")
TRUSTED_BASE = [
    "Coq 8.16.1 kernel + vm_compute (case evaluation, Example); no native_compute",
    "hand translation node/builtin/channel/{channel,channelservice}.go and ClientSessions.PushMsg -> C16/Model.v, measured by this correspondence run",
    "Go harness harness/c16 (recording IPushMessager / IClientSession, pushes sorted by front token), bin/check.py JSON->Coq term printer",
    "modelled not verified: sync.Map (as a map), sync.Mutex (operations are sequential in the harness), uint32 ids as Z",
]
ASSUMPTIONS = [
    "operations on one channel.Service are issued from its owning service goroutine (sequential), as the code comments require",
    "connection ids fit uint32; channel/front names are arbitrary distinct strings (tokens in the model)",
]
TECHNIQUE = "Coq proof (refinement of the channel-service model to a history function, by induction over operations) + differential correspondence against the real channel.Service / ClientSessions.PushMsg"
LEVEL_TEXT = ("Machine-checked Coq theorems: for every operation history the model's broadcast lists exactly the history "
              "function `members` (multiplicity, join order, frame, map laws, front-end delivery), unbounded. The model is "
              "tied to the Go code by running both on the same histories each run; any difference in pushed (front, ids) is reported with the shrunk history.")
