import os, sys
sys.path.insert(0, os.path.dirname(os.path.dirname(os.path.abspath(__file__))))
import mmo_overlay

ID = "C19"
N_QUICK = 300
N_THOROUGH = 8000
MODEL_SHOW = "show"
DISAGREE_IS_VIOLATION = True   # dumps are exactly the state the property fixes; results are compared by membership
HARNESS_DIR = mmo_overlay.HARNESS_MMO
HARNESS_BIN = "c19"
EXTRA_SUMS = [mmo_overlay.MMO_SUM]


def prepare_build(repo, bdir):
    """regenerate the overlay module `mmo` (scenem + its mmo dependencies, verbatim, plus the white-box
    accessor file) from the CURRENT text of repo/_projects/mmo/server and check that it compiles"""
    return mmo_overlay.prepare(ID, repo, bdir)


_desc = mmo_overlay.describe(ID)

RULE = ("exhaustive: every sequence of length <= 3 (quick) / 4 (thorough) over a 9-symbol alphabet (refresh of two services, "
        "creation under two configurations and two services, end of the 1st/2nd created scene, loss of service 1, "
        "12 s + timer tick) followed by a creation, a request and an allocation; hole patterns, exhaustive in one configuration: "
        "k = 2/3/4 initial scenes, then every sequence of length <= 5/5/4 (quick) resp. 8/7/6 (thorough) over {create, end the scene "
        "on line j} that never ends an empty line, followed by two creations and a request (holes of different ages coexist in "
        "every possible way); hole patterns, random (every 4th random case): 1-3 configurations x 3-6 scenes on 2-3 services, "
        "then ends of the lowest/highest/any line biased to one configuration at a time, creations, bursts (end a random subset, "
        "refill part), service losses and four-strike expiries that free many lines at once followed by creations, two final "
        "creations per configuration; random: 6-60 ops generated while executing "
        "on the real manager (an AllocScene result is fed back as a later OnSceneCreateSucc, in any order, also after the "
        "service was lost): keep-alives with scene counts 0..7000 incl. ties, the cap 5000 and negatives, allocations, "
        "creations (also on unknown services; ~4% violate the guard by reusing an id or using id 0), ends of live (low "
        "line numbers preferred, so gaps appear) / unknown / already ended scenes, clock steps around the 3 s limit with "
        "timer ticks, four-strike sequences while another service keeps refreshing, losses of known/unknown/already lost "
        "services, requests. Results of AllocScene / ReqSceneByCfgId are compared by membership in the model's admissible "
        "set, the dump after every operation exactly. Non-trivial = a scene was created and (a live scene was removed or a "
        "request was answered with a scene); distinct = distinct op sequences.")
TRUSTED_BASE = [
    "Coq 8.16.1 kernel + vm_compute (case evaluation, Example); no native_compute",
    "hand translation servers/scenem/{world,sceneline,mgr,sceneobj}.go -> C19/Model.v, measured by this correspondence run",
    "Go harness harness_mmo/c19 + white-box accessors harness_mmo/whitebox/servers/scenem/verif_c19.go (copied into the overlay's "
    "scenem package; reads World/SceneLines/services, calls onUpdate/onServiceLost), harness_mmo/hx, bin/check.py JSON->Coq printer",
    "virtual clock utils/common.VerifSetNowMs (build tag verif)",
    "overlay module (bin/mmo_overlay.py): copied verbatim from the repo on every run: " + ", ".join(_desc["copied"]),
    "overlay stubs: " + (", ".join(_desc["stubbed"]) or "none (every mmo package scenem imports is copied whole)"),
    "modelled not verified: Go maps (as maps), sort.Slice / slices.Delete / slices.IndexFunc, math/rand (any index), float32 "
    "evaluation of GetBusyWeight (checked at harness start to be the monotone function of the scene count the model uses: strictly "
    "increasing on [-20000, 4999], exactly 1 from 5000 on and for non-working services); the public-scene spawner and "
    "SpawnScene's remote request (publicscenes.go, mgr_createscene.go: compiled, their timer registered, not driven - the "
    "operations are the calls they make)",
]
ASSUMPTIONS = [
    "guard: scene ids passed to OnSceneCreateSucc are positive and created once (they come from allocSceneId); histories violating it are still compared with the model but the property monitor is not applied to them",
    "SceneServiceStat.CPURate is 0 (nothing in mmo assigns it; the harness checks it stays 0), so the busy weight is min(1, n/5000)",
    "all calls are made from the scenem service goroutine (sequential)",
    "int32 line numbers / uint64 scene ids do not wrap (Z in the model)",
]
TECHNIQUE = ("Coq proof (inductive invariant Consistent over all histories; exactness/frame lemmas for end, loss and tick; "
             "least-free line by induction on the sorted list; argmin characterisation of FindIdleService) + differential "
             "correspondence against the real scenem package through the mmo overlay module with white-box dumps")
LEVEL_TEXT = ("Machine-checked Coq theorems for all histories under the stated guard: consistency of scenes and lines, smallest free "
              "line, exact removal with frame conditions for end / service loss / keep-alive expiry, live-scene requests, "
              "allocation on a working service of minimal busy weight. Tied to the Go code by comparing the full World/manager "
              "dump after every operation of each generated history, and by evaluating the property's boolean form on those dumps; "
              "C19_monitor_accepts_model proves that every trace the model accepts passes that monitor, so a monitor failure is a "
              "behaviour the model excludes.")


def extra_coverage(cases):
    rep = mmo_overlay.LAST.get(ID) or _desc
    return {"overlay": {"copied": rep["copied"], "stubbed": rep["stubbed"], "whitebox": rep["whitebox"]}}
