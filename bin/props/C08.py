ID = "C08"
N_QUICK = 220
N_THOROUGH = 3000
MODEL_SHOW = "run"
DISAGREE_IS_VIOLATION = True   # observables are exactly what the property fixes
HARNESS_TIMEOUT = 600
RULE = ("exhaustive: every event list of length <= 3 (quick; 5-event alphabet: register / re-register with changed "
        "state+address / expire one node, register a second node, delete the node itself) resp. <= 4 (thorough; 7-event "
        "alphabet, also with a non-empty initial listing) in EVERY batching (2^(L-1) splits); all-batchings: every split "
        "of random lists of 2-5 (thorough 2-7) events; random: 1-40 events over 4 node ids incl. the node itself, "
        "duplicates, deletes of unknown nodes, junk events, malformed service names, stale/dead/duplicate listing "
        "entries, random splits incl. empty responses, a second provider life; random-nonconforming (10%): records "
        "under a foreign key or marked dead (model agreement only, the theorem's guard is off); stress-measurement: "
        "3 (thorough 12) runs of one updater alternating two views against 6 readers. Non-trivial = at least one "
        "publication caused by a watch response and some published list with >= 2 members (stress: the two views "
        "give different answers); distinct = distinct op sequences.")
TRUSTED_BASE = [
    "Coq 8.16.1 kernel + vm_compute (case evaluation, Examples); no native_compute",
    "hand translation etcd_provider.go (handleWatchResponse, updateNodesWithChanges, updateNodesWithSelf, _keepWatching, "
    "createClusterTopologyEvent) and clusterservices.go (MakeMembers, addService, makePID, getters) -> C08/Model.v, measured by this correspondence run",
    "verif-tagged export node/cluster/clusterproviders/etcd/verif_export.go: VerifNewProvider repeats the 3 lines of StartMember "
    "between init and startWatching (fetchNodes' decoding loop, updateNodesWithSelf, publish) without an etcd client; VerifFeed runs the real _keepWatching on an injected channel",
    "Go harness harness/c08 (recording ICluster that sorts each published list before handing it to the real app.Cluster, token<->string maps), bin/check.py JSON->Coq term printer",
    "modelled not verified: etcd itself and clientv3 (only WatchResponse values are consumed), JSON (de)serialisation of Node (exercised, not modelled), "
    "Go maps (as sorted association lists; iteration order never observable), plain pointer stores/loads of the four ClusterServices fields as sequentially consistent atomic steps "
    "(the Go memory model gives no such guarantee for unsynchronised accesses - the stress run is a measurement on this machine only)",
    "reader atomicity on the real code is MEASURED (stress-measurement cases, boolean observable), the proof C08_reader_atomic is about the interleaving model",
]
ASSUMPTIONS = [
    "conformance of discovery data (theorem guard): the value stored under key .../k is the record of node k and registered records have alive=true; "
    "non-conforming events are still run against the model but not against the property",
    "member mode (StartMember); StartClient (self not added) and UpdateClusterState (self state changed from another goroutine) are not modelled",
    "a watch stream without error responses (resp.Err() != nil ends _keepWatching; the re-watch from the current revision is outside this property)",
    "node ids, service types/names, states and addresses are tokens mapped injectively to strings / host:port; node ids contain no '/'",
    "all queries and the updater act on one ClusterServices; a single query = one getter call (a caller chaining two getters is not covered, see C08_composite_can_mix)",
]
TECHNIQUE = ("Coq proof (batch fold refines the per-event key-space semantics via a changes-map invariant; index construction equals "
             "list comprehensions; interleaving model with a per-reference view invariant) + differential correspondence against the real "
             "_keepWatching / MakeMembers / getters + stress measurement")
LEVEL_TEXT = ("Machine-checked Coq theorems, unbounded: for every listing, event list and batching the published member map equals the implied "
              "set incl. the node itself (after repairing F9); per-type / working / name / member indexes equal their specifications for every "
              "member list; every single-reference query under every interleaving is answered from one published view. The model is tied to the "
              "Go code by running both on the same histories each run; reader atomicity on the real code is only measured.")


def extra_coverage(cases):
    """reader atomicity on the real code is a measurement; report it separately"""
    runs = [c for c in cases if c.get("kind") == "stress-measurement"]
    ok = sum(1 for c in runs if c["obs"] == [{"BStress": [True]}])
    pubs = sum(1 for c in cases for o in c["obs"] if isinstance(o, dict) and "BPub" in o)
    return {"measurement_reader_atomicity": {
                "label": "measurement, not proof: updater alternating two complete views (400 rounds) against 6 readers "
                         "calling every getter; each answer must be one an entire view gives",
                "stress_runs": len(runs), "stress_runs_all_answers_from_one_view": ok},
            "publications_checked": pubs}
