ID = "C08"
N_QUICK = 170
N_THOROUGH = 3000
MODEL_SHOW = "run"
DISAGREE_IS_VIOLATION = True   # observables are exactly what the property fixes
HARNESS_TIMEOUT = 600
RULE = ("exhaustive: every event list of length <= 3 (quick; 5-event alphabet: register / re-register with changed "
        "state+address / expire one node, register a second node, delete the node itself) resp. <= 4 (thorough; 7-event "
        "alphabet, also with an initial listing that contains a stale record of the node itself) in EVERY batching "
        "(2^(L-1) splits); listing-systematic: 12 initial listings (empty, other node, the node's own stale record "
        "first/last/alone/twice, dead records, duplicate ids) x every alphabet event and delete/register pairs about the "
        "node itself; self-state-systematic: state change, lease loss, then the DELETE/PUT echo about the node itself in "
        "one or two responses or with the OLD state, re-watch; all-batchings: every split of random lists of 2-5 "
        "(thorough 2-7) events; random: provider lives of 1-3 watch segments (1-20 events over 4 node ids incl. the node "
        "itself, duplicates, deletes of unknown nodes, junk events, malformed service names, random splits incl. empty "
        "responses) interleaved with own state changes (+ echo), lease losses (incl. failing retry), closed/failed watch "
        "streams, shutdown, queries of the package-level getters, failing starts (undecodable listing entry, failing Get, "
        "address that is no host:port), a second life; random-nonconforming (10%): records under a foreign key or marked "
        "dead (model agreement only, the theorem's guard is off); SCRIPTED LIVES (one op = a whole provider life on a key space "
        "with revisions whose every response is released by the script; an action that is not possible is a no-op, so a script is a "
        "schedule for any request order): boot-startup-exhaustive: every sequence of <= 2 (thorough 3) mutations (register / "
        "re-register with changed state+address / expire node 1, register node 2; also a stale record, the expiry and the echo of the "
        "node itself; StartClient with <= 1 (2)) in EVERY position relative to [early watch registration] - listing evaluated - "
        "[early delivery] - listing delivered - watch registered - fragment of 1 - rest; boot-rewatch-systematic: stream closed / "
        "cancelled x after a fragment or not x gap (nothing / node 1 expires and returns / both other nodes expire) x compaction x mutation "
        "after it x mutation while the listing is fetched again (the re-listing must DROP who is gone), re-listing that fails twice, failing "
        "first listing; boot-shutdown-systematic: Shutdown with events in flight, while "
        "listing again, before the watch is registered, before the start returned; boot-random: 140 (thorough N) random action "
        "sequences of 6-25 (mutations over 4 node ids incl. the node itself, evaluate / deliver / fail the listing, register the watch, "
        "deliver 0-9 events, end the stream, compact, stream-end + compaction + re-listing bursts, shut down), 20% as a client, some followed by an ordinary life; direct: etcd.Node round trips and self-cluster "
        "topologies; stress-measurement: 3 (thorough 12) runs of one updater alternating two views against 6 readers. "
        "Non-trivial = a publication with >= 2 members caused by a watch response or a scripted life, or an own state change "
        "(stress: the two views give different answers); distinct = distinct op sequences.")
TRUSTED_BASE = [
    "Coq 8.16.1 kernel + vm_compute (case evaluation, Examples); no native_compute",
    "hand translation etcd_provider.go (StartMember / StartClient order, fetchNodes result, updateNodes/updateNodesWithSelf, handleWatchResponse, "
    "updateNodesWithChanges, _keepWatching, the re-watch loop of startWatching with the start revision of keepWatching (p.revision+1; p.revision = "
    "listing revision, then ModRevision of the last event handled), listAgain after a compaction error, UpdateClusterState, "
    "registerService/keepAliveForever re-registration, Shutdown, createClusterTopologyEvent), node.go, cluster.go (InitSelf/makeFullNameServices/BuildSelfClusterTopology) "
    "and clusterservices.go + the getters of utils.go -> C08/Model.v, measured by this correspondence run",
    "verif-tagged exports in node/cluster/clusterproviders/etcd: verif_export_client.go (VerifNewProviderWithClient: real NewWithConfig, then the "
    "client is replaced by &clientv3.Client{KV,Watcher,Lease} supplied by the harness and the lease id is preset; VerifSetRetryInterval); "
    "verif_export.go (older entry points, no longer used by this harness)",
    "the harness's stand-in for etcd (harness/c08/fake.go): Get answers a prepared listing, Watch hands out an unbuffered channel the harness "
    "writes to (an empty response after each group of responses is the barrier), KeepAlive hands out a channel, Put/Delete/Revoke are recorded. "
    "It has none of etcd's semantics: that a lease expiry produces a DELETE, that a re-registration produces a PUT, revision continuity "
    "between two watches are inputs chosen by the generator, not consequences",
    "the SCRIPTED stand-in (harness/c08/boot.go, model: Model.v bstep) DOES carry a piece of etcd's semantics, taken from the clientv3 "
    "documentation / client source (watch.go: 'a current revision watch must resume at the store revision') and not checked against a server: "
    "a prefix Get answers the key space at its header revision; a Watch delivers exactly the events from its start revision on, in order; "
    "without a start revision it starts right after the revision current when the SERVER registers it; a start revision below the compaction "
    "revision is answered with a compaction error (CompactRevision != 0, Canceled); events carry ModRevision, the response header carries the "
    "store's revision (ahead of the last event of a fragment); events already sent are not affected by a later compaction. The node's own "
    "Put / Delete are recorded but do not enter the scripted key space (an echo is a mutation of the script)",
    "quiescence detection of the scripted driver: before and after every action it waits until every goroutine whose stack shows a frame of "
    "the provider package is blocked on a channel (runtime.Stack of all goroutines); 'no request pending' is read off after that",
    "NEEDS A LIVE ETCD, not run: clientv3.New's connection and NewWithConfig's error return; newLeaseID (clientv3.NewLease(p.client).Grant goes "
    "through the client's gRPC connection - the lease id is preset instead) and with it the lease<=0 branches of registerService/keepAliveForever; "
    "real lease keep-alive timing/expiry",
    "not run although offline-capable: the debugBadLease/debugShowEvent test "
    "switches, newTestProvider, setLeaseID/newContext (unused), StartMember's and Shutdown's returns when the fake Put/Delete of the node's own key fails, "
    "keepAliveForever's `resp == nil` branch (it dereferences the nil response in its error message and would panic; the etcd client closes the channel "
    "instead of sending nil), unreachable error returns (getNodeID, Serialize)",
    "Go harness harness/c08 (recording ICluster embedding the real app.Cluster of the global app.Node, published lists sorted before they reach "
    "MakeMembers, token<->string maps), bin/check.py JSON->Coq term printer",
    "modelled not verified: JSON (de)serialisation of Node (exercised incl. round trips, identity in the model), Go maps (sorted association lists; "
    "iteration order never observable), math/rand picks (any index), plain pointer stores/loads of the four ClusterServices fields as sequentially "
    "consistent atomic steps (the Go memory model gives no such guarantee for unsynchronised accesses - the stress run is a measurement on this machine only); "
    "UpdateClusterState and the publication read p.self.State from different goroutines without synchronisation (the harness serialises them)",
    "reader atomicity on the real code is MEASURED (stress-measurement cases, boolean observable), the proof C08_reader_atomic is about the interleaving model",
]
ASSUMPTIONS = [
    "conformance of discovery data (theorem guard): the value stored under key .../k is the record of node k and registered records have alive=true "
    "(what the node itself registers satisfies it: C08_registration_conforms, and the harness checks the real Put); "
    "non-conforming events are still run against the model but not against the property",
    "REPAIRED code: the model of the scripted lives is /repo + hooks/C08-fix-watch-from-listing-revision.patch (F23: a Watch without start "
    "revision lost what happened between listing and watch, and between two watches; C08_F23_old_code_refuted). On a tree without that patch "
    "exactly the schedules with a mutation in such a gap are reported (known_findings signature C08:F23)",
    "client mode (StartClient): the statement is about all OTHER nodes; what sits under the client's own id is outside it (the fold never touches that slot)",
    "ordinary (unscripted) lives: an error response or a closed watch channel is followed by a new watch on the same member map; there the events a watch "
    "delivers are inputs of the generator. In scripted lives they are consequences of the key space's history and of the start revision the provider asks for",
    "scripted lives: the node's own state does not change and its lease is not lost during them (both are covered by the ordinary lives); a "
    "compaction only matters when a watch is registered; Shutdown is only possible once the start call has returned (before that the action is a no-op); "
    "after a re-listing that completes after Shutdown the loop calls Watch once more on the cancelled context - the stand-in closes that stream at once, as the real client does; "
    "the schedule granularity is one request / response of the etcd client (what happens "
    "between two calls of the provider is atomic)",
    "node ids, service types/names, states and addresses are tokens mapped injectively to strings / host:port; node ids contain no '/'; node ids are single digits in the harness (canonical order of published lists)",
    "all queries and the updater act on one ClusterServices; a single query = one getter call (a caller chaining two getters is not covered, see C08_composite_can_mix)",
]
TECHNIQUE = ("Coq proof (batch fold refines the per-event key-space semantics via a changes-map invariant, extended to own state changes and re-watches; a small-step "
             "machine provider x scripted key space with revisions under an arbitrary schedule, invariant 'member table = key space at the position seen, every "
             "requested/registered watch continues exactly there, a listing in flight is not older', and an order-agnostic property monitor proved to accept it; index "
             "construction equals list comprehensions; laws of the first/random/PID getters; interleaving model with a per-reference view invariant; the "
             "executable monitor is proved to accept every model run) + differential correspondence against the real StartMember / watch loop / keep-alive "
             "loop / Shutdown on a stand-in etcd client, the real Cluster + ClusterServices + package-level getters + stress measurement")
LEVEL_TEXT = ("Machine-checked Coq theorems, unbounded: for every listing, event list, batching, own state change and re-watch the published member map "
              "equals the implied set incl. the node itself with its CURRENT state (after repairing F9); for EVERY schedule of a whole life (listing evaluated / "
              "delivered, mutations in between, watch registration, fragments, stream failures, compaction + re-listing, failing listings, Shutdown with events in "
              "flight; member and client) the published directory is the key space at the position the provider has seen, that position only grows, no event is "
              "lost or repeated, the node itself is in every publication, and a drained watch means directory = CURRENT membership (after repairing F23); per-type / working / name / member indexes and the "
              "derived getters equal their specifications for every member list; every single-reference query under every interleaving is answered from one "
              "published view. The model is tied to the Go code by running both on the same histories each run; reader atomicity on the real code is only measured.")


def extra_coverage(cases):
    """reader atomicity on the real code is a measurement; report it separately"""
    runs = [c for c in cases if c.get("kind") == "stress-measurement"]
    ok = sum(1 for c in runs if c["obs"] == [{"BStress": [True]}])
    pubs = sum(1 for c in cases for o in c["obs"] if isinstance(o, dict) and "BPub" in o)
    lives = [o["BBoot"][0] for c in cases for o in c["obs"] if isinstance(o, dict) and "BBoot" in o]
    xn = lambda x: x if isinstance(x, str) else next(iter(x))
    boot = {"scripted_lives": len(lives),
            "publications_checked_in_scripted_lives": sum(1 for l in lives for x in l if xn(x) in ("XStart", "XPub")),
            "watch_registrations": sum(1 for l in lives for x in l if xn(x) == "XWReg"),
            "compaction_errors_followed_by_a_new_listing": sum(1 for l in lives for x in l if xn(x) == "XWComp"),
            "shutdowns_inside_a_script": sum(1 for l in lives for x in l if xn(x) == "XDown")}
    return {"scripted_lives": boot,"measurement_reader_atomicity": {
                "label": "measurement, not proof: updater alternating two complete views (400 rounds) against 6 readers "
                         "calling every getter; each answer must be one an entire view gives",
                "stress_runs": len(runs), "stress_runs_all_answers_from_one_view": ok},
            "publications_checked": pubs}


def _chunks(n):
    """(start, length) of the pieces to try to remove from a list of n elements, big pieces first"""
    out, size = [], n // 2
    while size >= 1:
        out += [(i, size) for i in range(0, n, size)]
        size //= 2
    return out


def shrink_candidates(ops):
    """smaller op lists: whole ops removed, then actions removed from the script of a scripted life
    (an action that is not possible is a no-op, so every sub-script is a valid schedule)"""
    if not isinstance(ops, list):
        return []
    cands = []
    if len(ops) >= 2:
        for i, k in _chunks(len(ops)):
            c = ops[:i] + ops[i + k:]
            if c and c not in cands:
                cands.append(c)
    for j, o in enumerate(ops):
        if isinstance(o, dict) and "OBoot" in o:
            me, mode, acts = o["OBoot"]
            for i, k in _chunks(len(acts)):
                c = ops[:j] + [{"OBoot": [me, mode, acts[:i] + acts[i + k:]]}] + ops[j + 1:]
                if c not in cands:
                    cands.append(c)
    return cands


def _name(t):
    return t if isinstance(t, str) else next(iter(t))


def finding_signature(case):
    """F23 (events between the listing and the registration of the watch, or between two watches, are
    never delivered: Watch without a start revision) is repaired by
    hooks/C08-fix-watch-from-listing-revision.patch and the model is the REPAIRED code.  Until that patch
    is in /repo an `open` known_findings entry with signature "C08:F23" keeps the unchanged tree passing.
    It matches a history only if in every scripted life every registered watch started exactly at "now"
    (XWReg start = current revision + 1, the unrepaired code's request), at least one of them thereby
    skipped revisions the provider had not been shown, and no watch was registered BEFORE the first
    listing was delivered (so watch-first changes are never hidden by it)."""
    try:
        hit = False
        for o, b in zip(case["ops"], case["obs"]):
            if not (isinstance(o, dict) and "OBoot" in o and isinstance(b, dict) and "BBoot" in b):
                continue
            acts, xs = o["OBoot"][2], b["BBoot"][0]
            if len(acts) != len(xs):
                return None
            rev, seen, nxt, evald = 1, None, None, None   # store revision, shown to the provider, watch, listing
            for a, x in zip(acts, xs):
                an, xn = _name(a), _name(x)
                if an == "AMut":
                    rev += 1
                elif an == "AGetEval" and xn == "XAck":
                    evald = rev
                elif an == "AGetResp" and xn in ("XStart", "XPub"):
                    seen = max(seen or 0, evald or 0)
                elif an == "AWatch" and xn == "XWReg":
                    start = x["XWReg"][0]
                    if seen is None or start != rev + 1:
                        return None
                    if start > seen + 1:
                        hit = True
                    nxt = start
                elif an == "ADeliver" and xn == "XPub" and nxt is not None:
                    n = min(a["ADeliver"][0], rev - nxt + 1)
                    nxt += n
                    seen = max(seen or 0, nxt - 1)
        return "C08:F23" if hit else None
    except Exception:
        return None
