ID = "C08"
N_QUICK = 170
N_THOROUGH = 3000
MODEL_SHOW = "run"
DISAGREE_IS_VIOLATION = True   # observables are exactly what the property fixes
HARNESS_TIMEOUT = 600
RULE = ("exhaustive: every event list of length <= 3 (quick; 5-event alphabet: register / re-register with changed "
        "state+address / expire one node, register a second node, delete the node itself) resp. <= 4 (thorough; 7-event "
        "alphabet, also with an initial listing that contains a stale record of the node itself) in EVERY batching "
        "(2^(L-1) splits); listing-systematic: 12 initial listings (empty, other node, the node's own stale record "
        "first/last/alone/twice, dead records, duplicate ids) x every alphabet event and delete/register pairs about the "
        "node itself; self-state-systematic: state change, lease loss, then the DELETE/PUT echo about the node itself in "
        "one or two responses or with the OLD state, re-watch; all-batchings: every split of random lists of 2-5 "
        "(thorough 2-7) events; random: provider lives of 1-3 watch segments (1-20 events over 4 node ids incl. the node "
        "itself, duplicates, deletes of unknown nodes, junk events, malformed service names, random splits incl. empty "
        "responses) interleaved with own state changes (+ echo), lease losses (incl. failing retry), closed/failed watch "
        "streams, shutdown, queries of the package-level getters, failing starts (undecodable listing entry, failing Get, "
        "address that is no host:port), a second life; random-nonconforming (10%): records under a foreign key or marked "
        "dead (model agreement only, the theorem's guard is off); direct: etcd.Node round trips and self-cluster "
        "topologies; stress-measurement: 3 (thorough 12) runs of one updater alternating two views against 6 readers. "
        "Non-trivial = a publication with >= 2 members caused by a watch response, or an own state change "
        "(stress: the two views give different answers); distinct = distinct op sequences.")
TRUSTED_BASE = [
    "Coq 8.16.1 kernel + vm_compute (case evaluation, Examples); no native_compute",
    "hand translation etcd_provider.go (StartMember order, fetchNodes result, updateNodes/updateNodesWithSelf, handleWatchResponse, "
    "updateNodesWithChanges, _keepWatching, the re-watch loop of startWatching, UpdateClusterState, registerService/keepAliveForever "
    "re-registration, Shutdown, createClusterTopologyEvent), node.go, cluster.go (InitSelf/makeFullNameServices/BuildSelfClusterTopology) "
    "and clusterservices.go + the getters of utils.go -> C08/Model.v, measured by this correspondence run",
    "verif-tagged exports in node/cluster/clusterproviders/etcd: verif_export_client.go (VerifNewProviderWithClient: real NewWithConfig, then the "
    "client is replaced by &clientv3.Client{KV,Watcher,Lease} supplied by the harness and the lease id is preset; VerifSetRetryInterval); "
    "verif_export.go (older entry points, no longer used by this harness)",
    "the harness's stand-in for etcd (harness/c08/fake.go): Get answers a prepared listing, Watch hands out an unbuffered channel the harness "
    "writes to (an empty response after each group of responses is the barrier), KeepAlive hands out a channel, Put/Delete/Revoke are recorded. "
    "It has none of etcd's semantics: that a lease expiry produces a DELETE, that a re-registration produces a PUT, revision continuity "
    "between two watches are inputs chosen by the generator, not consequences",
    "NEEDS A LIVE ETCD, not run: clientv3.New's connection and NewWithConfig's error return; newLeaseID (clientv3.NewLease(p.client).Grant goes "
    "through the client's gRPC connection - the lease id is preset instead) and with it the lease<=0 branches of registerService/keepAliveForever; "
    "real lease keep-alive timing/expiry; what a watch re-opened WITHOUT a start revision misses (keepWatching passes no WithRev although p.revision "
    "is tracked: events between two watches are not delivered - outside 'events delivered by the watch', reported as an observation)",
    "not run although offline-capable: StartClient (client mode, never called by the node's ClusterModule), the debugBadLease/debugShowEvent test "
    "switches, newTestProvider, setLeaseID/newContext (unused), StartMember's and Shutdown's returns when the fake Put/Delete of the node's own key fails, "
    "keepAliveForever's `resp == nil` branch (it dereferences the nil response in its error message and would panic; the etcd client closes the channel "
    "instead of sending nil), unreachable error returns (getNodeID, Serialize)",
    "Go harness harness/c08 (recording ICluster embedding the real app.Cluster of the global app.Node, published lists sorted before they reach "
    "MakeMembers, token<->string maps), bin/check.py JSON->Coq term printer",
    "modelled not verified: JSON (de)serialisation of Node (exercised incl. round trips, identity in the model), Go maps (sorted association lists; "
    "iteration order never observable), math/rand picks (any index), plain pointer stores/loads of the four ClusterServices fields as sequentially "
    "consistent atomic steps (the Go memory model gives no such guarantee for unsynchronised accesses - the stress run is a measurement on this machine only); "
    "UpdateClusterState and the publication read p.self.State from different goroutines without synchronisation (the harness serialises them)",
    "reader atomicity on the real code is MEASURED (stress-measurement cases, boolean observable), the proof C08_reader_atomic is about the interleaving model",
]
ASSUMPTIONS = [
    "conformance of discovery data (theorem guard): the value stored under key .../k is the record of node k and registered records have alive=true "
    "(what the node itself registers satisfies it: C08_registration_conforms, and the harness checks the real Put); "
    "non-conforming events are still run against the model but not against the property",
    "member mode (StartMember); StartClient is not modelled",
    "an error response or a closed watch channel is followed by a new watch on the same member map (modelled and run); events the new watch does not deliver are not part of the history",
    "node ids, service types/names, states and addresses are tokens mapped injectively to strings / host:port; node ids contain no '/'; node ids are single digits in the harness (canonical order of published lists)",
    "all queries and the updater act on one ClusterServices; a single query = one getter call (a caller chaining two getters is not covered, see C08_composite_can_mix)",
]
TECHNIQUE = ("Coq proof (batch fold refines the per-event key-space semantics via a changes-map invariant, extended to own state changes and re-watches; index "
             "construction equals list comprehensions; laws of the first/random/PID getters; interleaving model with a per-reference view invariant; the "
             "executable monitor is proved to accept every model run) + differential correspondence against the real StartMember / watch loop / keep-alive "
             "loop / Shutdown on a stand-in etcd client, the real Cluster + ClusterServices + package-level getters + stress measurement")
LEVEL_TEXT = ("Machine-checked Coq theorems, unbounded: for every listing, event list, batching, own state change and re-watch the published member map "
              "equals the implied set incl. the node itself with its CURRENT state (after repairing F9); per-type / working / name / member indexes and the "
              "derived getters equal their specifications for every member list; every single-reference query under every interleaving is answered from one "
              "published view. The model is tied to the Go code by running both on the same histories each run; reader atomicity on the real code is only measured.")


def extra_coverage(cases):
    """reader atomicity on the real code is a measurement; report it separately"""
    runs = [c for c in cases if c.get("kind") == "stress-measurement"]
    ok = sum(1 for c in runs if c["obs"] == [{"BStress": [True]}])
    pubs = sum(1 for c in cases for o in c["obs"] if isinstance(o, dict) and "BPub" in o)
    return {"measurement_reader_atomicity": {
                "label": "measurement, not proof: updater alternating two complete views (400 rounds) against 6 readers "
                         "calling every getter; each answer must be one an entire view gives",
                "stress_runs": len(runs), "stress_runs_all_answers_from_one_view": ok},
            "publications_checked": pubs}
