ID = "C09disp"
ANCHOR_ID = "C09"
COVER_EXTRA = ["github.com/dfklegend/cell2/actorex/disp"]
N_QUICK = 60
N_THOROUGH = 1500
MODEL_SHOW = "run_d"
DISAGREE_IS_VIOLATION = True   # the observables are the property's clauses themselves
RULE = ("n real mailboxes (mailbox.Producer(20)) registered with ONE real scheDisp (what actors spawned from the same service props share); "
        "fixed: the service goroutine is held inside mailbox 0's handler while 1, 8, 9, 10, 11, 12, 20 or 40 other idle mailboxes get a message each "
        "(the dispatcher's channel holds 9 tasks; further Schedule calls block), one and three rounds, and release + re-hold; random: 1..40 mailboxes, "
        "5..65 script steps of hold / post / release. Goroutines run freely. Non-trivial = the script is not empty; distinct = distinct scripts.")
TRUSTED_BASE = [
    "Coq 8.16.1 kernel + vm_compute (case evaluation, Example); no native_compute",
    "C09disp/Model.v abstracts each mailbox to what C09's theorems give it (one outstanding task, schedules when a post finds it idle or a run ends with "
    "messages left) and models scheDisp.Schedule as a blocking send on a channel of capacity 9 consumed by one goroutine; hand translation of "
    "actorex/disp/schedisp.go, measured by this correspondence run",
    "Go harness harness/c09disp (one poster goroutine per mailbox, handler records payload / goroutine id from runtime.Stack / concurrent entries), bin/check.py term printer",
    "the schedule of the real goroutines is not controlled; the theorems quantify over all schedules, so the model's answer does not depend on it",
]
ASSUMPTIONS = [
    "posters are goroutines other than the service goroutine (a handler that itself posts to >= 10 sibling mailboxes of its own dispatcher blocks the "
    "service goroutine on its own full channel: recorded in DESIGN.md as a liveness observation about unchanged cell2, outside this statement)",
    "a hold is released before the next hold is posted (one service goroutine)",
]
TECHNIQUE = ("Coq proof (invariant over all schedules of posters, blocked Schedule calls and consumer steps for any number of mailboxes; conservation; "
             "termination measure => never stalls) + correspondence against real mailboxes on one real scheDisp")
LEVEL_TEXT = ("Machine-checked Coq theorems for ANY number of mailboxes sharing one 9-slot dispatcher: exactly once and in order per mailbox, never two runs at a time, "
              "channel never over capacity, at rest everything handled, and from every reachable state the system comes to rest without a further post. "
              "Tied to the Go code by running real mailboxes on a real scheDisp each run.")
