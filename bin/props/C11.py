ID = "C11"
N_QUICK = 500
N_THOROUGH = 9000
MODEL_SHOW = "run"
DISAGREE_IS_VIOLATION = True   # the event log is exactly what the property talks about
RULE = ("exhaustive (bare ModList): every assignment of {sync ok, sync fail, completes later, calls next twice} to the "
        "Start (resp. Stop) behaviour of n <= 2 (quick) / 3 (thorough) modules, followed by every sequence of <= 2 / 3 "
        "environment completions (which captured continuation, true/false) in every order; random: 0-5 modules in bare "
        "ModList / baseapp.App via LaunchAppWithMode / unprepared App / node App via StartNode, two thirds of the histories "
        "well behaved (sync, later, failing, panicking-after-next modules; completions aimed at the module that is waiting), "
        "one third adversarial (double/triple next, panic before next, stale and out-of-range completions, repeated "
        "Start/Stop), 30% of the App/node histories in cluster mode against the in-process etcd stand-in with 0-2 failing etcd "
        "operations, 20% of them with owner callbacks that themselves request App.Start / App.Stop; 7% bare ModList on a node "
        "that has its node info (MListNode: fixed / busy / free address, cluster mode) with restarts of the same module "
        "objects; builtin: 130 fixed scenarios x the real Welcome/ActorSystem/Cluster modules: self cluster, remote listen "
        "failure, nil node info, stop paths, and cluster mode with every step of ClusterModule.Start/Stop failing in turn "
        "(NewWithConfig, init, fetch Get / undecodable listing, watch stream, lease Grant, register Put, keep-alive Grant / Put / "
        "expired lease, deregister Delete) in node, App and bare-list mode incl. Stop after a failed Start, Start twice, Stop "
        "twice, several faults at once, two cluster modules; second life cycles (stop after a Start that failed at the remote "
        "listen step, start-stop-start-stop with the listener of the first cycle still bound / on a fresh port, Start twice, "
        "restarts of scripted, actor and cluster modules, refused restarts through App and node); requests from inside the "
        "completion callbacks in App and node mode (Stop inside the start callback under the list lock = deadlock, outside it "
        "= nested stop run, after a late failure, with double next, panicking and stale completions; Start inside the start "
        "and stop callbacks, Stop inside the stop callback). Non-trivial = at least one module Start/Stop was entered; "
        "distinct = distinct op lists.")
TRUSTED_BASE = [
    "Coq 8.16.1 kernel + vm_compute (case evaluation, Examples); no native_compute",
    "hand translation baseapp/module/modulelist.go (Filter/Start/Stop), baseapp/app.go (Start/Stop/Cleanup), "
    "node/modules/{welcome,actor,cluster} Start/Stop with etcd.Provider.StartMember/Shutdown inlined -> C11/Model.v, "
    "measured by this correspondence run on every case",
    "Go harness harness/c11 (recording wrapper modules; run ids attributed by the harness from the call in progress; "
    "each operation executed on its own goroutine and joined; 3 s watchdog), bin/check.py JSON->Coq term printer",
    "deadlock observation: a request made inside a completion callback is reported as EDeadlock when the App's list lock "
    "was held at that moment (TryLock on the real sync.RWMutex, reached by reflection: the fields are unexported) and the "
    "call has not returned after 60 ms; operations are sequential, so a held lock is held by the requesting goroutine",
    "harness/c11/etcdfake.go: gRPC stand-in for etcd (KV Range/Put/DeleteRange, Lease Grant/Revoke/KeepAlive, Watch) that the "
    "module's REAL clientv3 client dials via cluster.yaml's ETCDServer; faults are injected server-side per connection as "
    "non-retryable etcd errors (ResourceExhausted), a cancelled watch, an expired lease, an undecodable value; "
    "NewWithConfig failure = an endpoint grpc cannot parse",
    "modelled not verified: sync.RWMutex of ModList (operations are sequential in the harness), RunService/timers, "
    "what the watch / keep-alive goroutines do after their failure (they cannot reach next; driven, not observed), "
    "an etcd endpoint nobody listens on (the first Get does not return within the watchdog; model: fetch fails), "
    "protoactor remote (listen success / EADDRINUSE), provider.Shutdown assumed to return",
]
ASSUMPTIONS = [
    "the module list is not changed once Start or Stop has been called (AddModule during a run is outside the model)",
    "Start/Stop/next are not invoked concurrently for the same ModList (the framework calls them from the App's service); "
    "a module's Start/Stop returns (a blocking etcd call is not a completion-count issue)",
    "order/first-failure/finish-once theorems are under the stated hypothesis that no module invokes next more often than it "
    "was entered (at_most_once) resp. exactly as often (exactly_once); without it C11_accounting/C11_never_twice say what happens",
    "ActorSystemModule.Stop reports once provided its actor system exists and is not shut down, ClusterModule.Stop provided "
    "its own Start did not fail inside StartMember's init (both true under the App guard: Stop only after every Start "
    "succeeded; a bare ModList.Stop after a failed Start panics inside these Stops and never calls next - observed on the "
    "real code and modelled as such); the monitor exempts exactly the calls entered without that precondition "
    "(Spec.unclaimed, computed from the implementation's own entries) and counts one next per call everywhere else",
    "owner callbacks make at most one request each and only at App level (baseapp.App / node App); a bare ModList has no "
    "owner in the model. A request accepted while ModList.Filter holds the list lock never returns on the real code "
    "(sync.RWMutex is not reentrant): modelled as EDeadlock, after which the history is over (C11_after_deadlock); "
    "the monitor accepts it as the honoured outcome of the guard",
    "AFixed: the port stays bound by the remote of the first actor system for the rest of the history (no Stop closes the "
    "listener - observed), so a restart of the actor module on a fixed address fails at the listen step",
    "the launch mode's PrepareModules adds the modules once (LaunchAppWithMode calls it before the state guard)",
    "hooks/C11-fix-cluster-start-return.patch and hooks/C11-fix-actor-start-listen-panic.patch are applied to the repo under test",
]
TECHNIQUE = ("Coq proof (work-list semantics of the continuation machine; per-run invariant linking it to a one-at-a-time "
             "automaton, potential function for termination, global invariants for App guards; all by induction over "
             "histories) + differential correspondence and property monitor against the real ModList / App / shipped modules")
LEVEL_TEXT = ("Machine-checked Coq theorems, unbounded in module lists, behaviours, histories and orders of delayed completions: "
              "start order / first failure / finish exactly once / exact reverse stop order under the at-most-once resp. "
              "exactly-once hypothesis, unconditional accounting and no-double-entry theorems, App state guards, one next() on "
              "every path of every shipped module (repaired code), also in second life cycles of the same module objects and for "
              "App-level requests made from inside the completion callbacks, with the fault point of every step explicit (cluster: NewWithConfig, "
              "init, fetch, watch, register, keep-alive, deregister). The model is tied to the Go code by running both on the same "
              "histories each run (events must be identical) and by evaluating the theorem statements on the implementation's own traces.")


def extra_coverage(cases):
    """event counts, and how many runs satisfy the theorems' hypotheses (so that the monitor is not vacuous)"""
    ev = {}
    runs = amo = exact = 0
    for c in cases:
        per_run = {}
        for x in c.get("obs") or []:
            for e in x:
                if not isinstance(e, dict):
                    ev[str(e)] = ev.get(str(e), 0) + 1
                    continue
                k, a = next(iter(e.items()))
                ev[k] = ev.get(k, 0) + 1
                if k in ("EEnter", "ENext", "EFin"):
                    per_run.setdefault(a[0], []).append((k, a[1:]))
        for t in per_run.values():
            runs += 1
            pend, good = [], True
            for k, a in t:
                if k == "EEnter":
                    pend.append(a[0])
                elif k == "ENext":
                    if a[0] in pend:
                        pend.remove(a[0])
                    else:
                        good = False
                        break
            if good:
                amo += 1
                if not pend:
                    exact += 1
    return {"event_counts": ev, "runs_observed": runs, "runs_at_most_once": amo, "runs_exactly_once": exact}
