ID = "C09ring"
ANCHOR_ID = "C09"
N_QUICK = 300
N_THOROUGH = 6000
MODEL_SHOW = "run"
DISAGREE_IS_VIOLATION = True   # observables are exactly the queues' return values
RULE = ("exhaustive: every sequence of length <= 5 (quick) / 7 (thorough) over {Push, Pop, PopMany 2} on goring.New(1|2|3) "
        "followed by Length, PopMany 1000, Pop; every sequence of length <= 4 / 6 over {Push, Pop, Empty} on mpsc.New() followed by a drain; "
        "boundary: fill to n0*2^j + {-2,-1,0,+1} items (n0 in 1,2,3,10; j <= 2 / 4: 9/10, 19/20, 39/40, 79/80, 159/160) with the head rotated by "
        "0, 1, n0/2, n0-1 and six drain shapes (Pop one by one past empty, PopMany len, len+1, 0 then len-1, half-drain + refill across the next "
        "boundary with a wrapped head, pop/push walk round the full buffer); random: 5-225 ops with fill/drain phases, PopMany counts "
        "0/1/len-1/len/len+1/10^6, occasional New mid-case, mpsc Push/Pop/Empty/New; out-of-precondition ops (New(0), PopMany(-1)) skipped identically; "
        "concurrent stress: 1-16 producers x 300-20000 values into mpsc.New() and goring.New(1|2|3|10) with one consumer (Pop and PopMany(5)). "
        "Non-trivial = some Pop/PopMany returned a value or a stress run executed; distinct = distinct op lists.")
TRUSTED_BASE = [
    "Coq 8.16.1 kernel + vm_compute (case evaluation, Examples); no native_compute",
    "hand translation actorex/queue/goring/queue.go -> C09ring/Model.v (ring: buffer/head/tail/mod/len, push incl. the doubling copy loop, pop, pop_many) and "
    "actorex/queue/mpsc/mpsc.go -> Model.v (two-step Push, Pop, Empty), measured by this correspondence run",
    "Go harness harness/c09ring (int64 items in interface{}, recover() turns a panic into BPanic), bin/check.py JSON->Coq term printer",
    "modelled not verified: sync.Mutex gives mutual exclusion (goring method bodies are atomic steps), sync/atomic Swap/Store/Load on pointers are "
    "sequentially consistent single steps (mpsc), int64 as Z (no overflow below 2^63 items), Go slices with bounds checks (bget/bset + *_inbounds)",
    "stress observables (BStress true true) are justified by Mpsc_refines_fifo / Ring_refines_fifo, and measured on the real code, not computed by the model from a schedule",
]
ASSUMPTIONS = [
    "goring.New(n) is called with n >= 1 (the mailbox uses 10); New(0) makes the first Push panic with an integer divide by zero",
    "goring.PopMany(k) is called with k >= 0 (the mailbox never calls PopMany); k < 0 on a non-empty queue panics in make() while the mutex is held",
    "Pop/PopMany/Empty are called from a single consumer goroutine (documented requirement of both queues)",
    "items are non-nil (mpsc.Pop returns nil for 'empty'; the mailbox never pushes nil)",
]
TECHNIQUE = ("Coq proof (representation invariant + abstraction function for the ring buffer, all capacities and all growth steps by induction; "
             "two-step interleaving model of the MPSC list with an invariant over all schedules) + differential correspondence against the real "
             "goring.Queue / mpsc.Queue incl. exhaustive small scope, growth-boundary sweeps and concurrent stress")
LEVEL_TEXT = ("Machine-checked Coq theorems: for every initial capacity >= 1 and every operation sequence the ring buffer returns exactly what a list FIFO "
              "returns (Push/Pop/PopMany/Length, growth included) and never indexes out of range; for every interleaving of any number of two-step "
              "producers with one consumer the MPSC list pops a prefix of the swap order, keeps per-producer order, pops nothing twice and, once all "
              "pushes completed, yields everything. Both exact models are tied to the Go code by running the same histories on the real queues each run.")
