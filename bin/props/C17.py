ID = "C17"
N_QUICK = 700
N_THOROUGH = 14000
MODEL_SHOW = "show"
DISAGREE_IS_VIOLATION = True   # the trace is exactly what the property talks about (who is invoked, with what, when)
HARNESS_TIMEOUT = 600
RULE = ("exhaustive: every op sequence of length <= 2 (quick) / 3 (thorough) over an 11-op alphabet (subscribe a listener whose "
        "callback does nothing / unsubscribes itself / clears the centre / subscribes another listener / unsubscribes listener 1 or 2 / "
        "publishes again, unsubscribe, clear, publish to two names) followed by a publication, once on a LocalEventCenter (direct mode) and once "
        "on a light.EventCenter; boundary: event queue filled to 997/998/999/1000/1200 by global publications, then drained / published into "
        "(incl. the owner's channel-mode Publish on a full queue, which blocks); global-fill (60 quick / 600 thorough): 2-4 local centres GSubscribe the same 1-3 names, "
        "1..all of them are filled to 996-1000 pending events through a private name, the shared names are published before / at / after the fill level "
        "(k = 1..3 copies), full centres are partially drained in between, and every queue is finally read back completely (ODrain + run-length-encoded bulk receive) - "
        "a centre with room must get every publication exactly once whatever the other queues hold, for every sync.Map Range order; random: 8-50 ops over 4 local centres (direct + channel mode, "
        "SetLocalUseChan), the global centre and 2 light centres, listener programs of 0-3 re-entrant actions nested up to depth 2. "
        "Non-trivial = at least one listener was actually invoked; distinct = distinct op sequences.")
TRUSTED_BASE = [
    "Coq 8.16.1 kernel + vm_compute (case evaluation, Examples); no native_compute",
    "hand translation utils/event/{localeventcenter,globaleventcenter}.go and utils/event/light/{lighteventcenter,list}.go (with hooks/C17-fix-1..4 applied) -> C17/Model.v, measured by this correspondence run",
    "Go harness harness/c17 (scripted callbacks, per-case owner goroutine, watchdog that declares VDeadlock when the case goroutine is parked and made no progress for 0.4 s, shadow table used only to avoid ambiguous unsubscribe-by-callback), bin/check.py JSON->Coq term printer",
    "the observed trace is used as the model's order oracle (it only chooses in which order a publication visits its snapshot = Go map iteration order); every theorem is proved for all oracles",
    "modelled not verified: Go channels (FIFO, capacity 999, non-blocking select), sync.RWMutex, sync.Map, map iteration (any order), reflect code pointers (4 distinct function literals), goroutine identity (all listener invocations of a case happen on the case's owner goroutine by construction of the driver)",
]
ASSUMPTIONS = [
    "all operations on one local/light centre are issued by its owning goroutine (the light centre is documented as not thread-safe; concurrent publishers on a LocalEventCenter are not modelled - the repaired dispatch holds no lock while a listener runs)",
    "callbacks are the scripted family: a finite program of subscribe/unsubscribe/clear/publish/global-publish actions, not run deeper than nesting level 2 (bounds the Go stack)",
    "an unsubscribe-by-callback whose target is ambiguous (several listeners with that code pointer in the list; the code leaves the choice to map order) is not issued",
    "listener ids are compared as creation-order tokens; event names and arguments are integer tokens",
]
TECHNIQUE = ("Coq proof (trace semantics: the model may only emit events allowed by a history-function specification; induction over "
             "operations and nesting depth with a loop invariant for the dispatch loop, for every iteration order) + differential "
             "correspondence against the real LocalEventCenter / GlobalEventCenter / light.EventCenter with re-entrant scripted listeners under a deadlock watchdog")
LEVEL_TEXT = ("Machine-checked Coq theorems over all histories, all listener programs and all map-iteration orders: each publication invokes "
              "exactly the listeners subscribed to that centre and name at the time of the call, at most once, and every one still subscribed at the end; "
              "arguments are bound ++ published; an unsubscribed listener / a cleared centre's listener is never invoked again (also when that happens "
              "inside a listener of the same publication); a global publication appends exactly one copy to the queue of every centre with a live global "
              "subscription unless the queue holds 999; nothing blocks except a channel-mode send on a full queue. The model is tied to the Go code by running "
              "both on the same histories each run and comparing the complete event traces.")
