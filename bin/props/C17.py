ID = "C17"
N_QUICK = 700
N_THOROUGH = 14000
MODEL_SHOW = "show"
DISAGREE_IS_VIOLATION = True   # the trace is exactly what the property talks about (who is invoked, with what, when)
HARNESS_TIMEOUT = 600
RULE = ("exhaustive: every op sequence of length <= 2 (quick) / 3 (thorough) over an 11-op alphabet (subscribe a listener whose "
        "callback does nothing / unsubscribes itself / clears the centre / subscribes another listener / unsubscribes listener 1 or 2 / "
        "publishes again, unsubscribe, clear, publish to two names) followed by a publication, once on a LocalEventCenter (direct mode) and once "
        "on a light.EventCenter; boundary: event queue filled to 997/998/999/1000/1200 by global publications, then drained / published into "
        "(incl. the owner's channel-mode Publish on a full queue, which blocks); global-fill (60 quick / 600 thorough): 2-4 local centres GSubscribe the same 1-3 names, "
        "1..all of them are filled to 996-1000 pending events through a private name, the shared names are published before / at / after the fill level "
        "(k = 1..3 copies), full centres are partially drained in between, and every queue is finally read back completely (ODrain + run-length-encoded bulk receive) - "
        "a centre with room must get every publication exactly once whatever the other queues hold, for every sync.Map Range order; "
        "run services (centres 4, 5 = the EventCenter of a real StandardRunService, owned by its loop goroutine): service-exhaustive: every op sequence of length <= 2 (quick) / 3 (thorough) "
        "over an 11-op life-cycle alphabet (Start, let the loop run, global publication, Stop() from the driver = a foreign goroutine / from the loop's busy task, the loop subscribes a listener that "
        "calls Stop() when invoked, the driver subscribes a re-publishing listener, the loop sends to its own queue, a foreign send nobody listens to, Clear and Unsubscribe by the loop) after a global "
        "subscription, with the service started or not, followed by publication / run / publication / subscription / send; teardown (120 quick / 1200 thorough): 1-3 listeners subscribed before or after Start, "
        "backlog before Start, deliveries, 0-3 publications left pending because the loop is busy, Stop() by the driver / the busy task / a listener / the other service's loop / not at all, publications and "
        "subscriptions after Stop() and after the loop has ended, second Start / Stop; service-random (every third random case): 8-50 ops over two run services, a channel centre, a direct centre and a light "
        "centre with every action issued either by the driver or by a loop goroutine; "
        "probes (centres 6, 7 = user implementations of ILocalEventCenter registered at the global centre directly, each on its own goroutine; a probe can hold its own Subscribe / Unsubscribe "
        "inside the global centre - after the lookup of the name's list, at the GetId() call the global centre makes on the centre object - while the other centres act): probe-exhaustive: every op "
        "sequence of length <= 3 (quick) / 4 (thorough) over an 11-op alphabet (Subscribe / Unsubscribe of 6 and 7, the same calls of 6 held, release, global publication, GSubscribe / last Unsubscribe / Clear "
        "of an ordinary centre for the same name) followed by release / publication / unsubscribe / publication; probe-random (120 quick / 1200 thorough): both probes, two names, two channel centres and a run "
        "service, publications up to the queue cap; "
        "random: 8-50 ops over 4 local centres (direct + channel mode, "
        "SetLocalUseChan), the global centre and 2 light centres, listener programs of 0-3 re-entrant actions nested up to depth 2. "
        "Every listener invocation records the goroutine it ran on. "
        "Non-trivial = at least one listener was actually invoked, a bulk receive returned events, a run service was stopped, or its loop handled an event nobody listens to; distinct = distinct op sequences.")
TRUSTED_BASE = [
    "Coq 8.16.1 kernel + vm_compute (case evaluation, Examples); no native_compute",
    "hand translation utils/event/{localeventcenter,globaleventcenter}.go, utils/event/light/{lighteventcenter,list}.go (with hooks/C17-fix-1..4 applied) and utils/runservice/standardrunservice.go (Start: event selector on the loop goroutine; Stop: TimerMgr.Stop, EventCenter.Clear, RunService.Stop) -> C17/Model.v, measured by this correspondence run",
    "Go harness harness/c17 (scripted callbacks, per-case driver goroutine, real StandardRunService per service centre whose loop is kept busy inside a scheduler task between driver operations and released by ORun, watchdog that declares VDeadlock when all goroutines of the case are parked and made no progress for 0.4 s, shadow table used only to avoid ambiguous unsubscribe-by-callback), bin/check.py JSON->Coq term printer",
    "probe centres: a Go type embedding a real LocalEventCenter whose GetId() can block once (interposition on the ILocalEventCenter interface the global centre works on; no hook in the code under test); the harness keeps a table of its own registrations only to decide whether probe queue lengths are logged after a publication",
    "goroutine identity is observed: ids parsed from runtime.Stack, mapped to tokens 0 = driver, 4/5 = the goroutine that runs the service's scheduler tasks (recognised by the runservice.(*RunService).loop frame before its first task), -1 = any other",
    "deliveries by a service's loop are not wrapped by the harness (the real event selector calls DoEvent): VDeq/VBegin of such a delivery are logged at its first listener invocation from what that listener sees (its name, the arguments behind its bound ones) and the number of events the loop has received so far (events put into the channel - len(channel), exact because only one goroutine of a case runs at a time); events received without any invocation are logged as a count (VSkip); what the loop silently receives after Stop() is not logged and the rest of its queue is discarded when the loop has ended",
    "the observed trace is used as the model's order oracle (it only chooses in which order a publication visits its snapshot = Go map iteration order); every theorem is proved for all oracles",
    "modelled not verified: Go channels (FIFO, capacity 999, non-blocking select), sync.RWMutex, sync.Map, map iteration (any order), reflect code pointers (4 distinct function literals), reflect.Select of the run service's selector (which ready channel is handled first: the harness only looks at quiescent states), sche.Sche / timer.Mgr (only their Stop is exercised)",
]
ASSUMPTIONS = [
    "subscribe / unsubscribe / clear / direct publication on a local or light centre are issued by its owning goroutine (the light centre is documented as not thread-safe; the repaired dispatch holds no lock while a listener runs); from any goroutine: GlobalEC.Publish, a channel-mode Publish (a send) and StandardRunService.Stop() - an action on a centre the acting goroutine does not own is otherwise not issued (VNop)",
    "statement-level interleavings are covered inside GlobalEventCenter.Subscribe / Unsubscribe only, at the one point where the global centre calls the centre object (GetId: between list lookup and Store / Delete), and for probe centres only (LocalEventCenter.GSubscribe passes itself, which cannot be interposed); other interleavings inside the global or a local centre are not covered",
    "no two goroutines of a case run at the same time: while the driver (or the other service) acts, a started loop is busy inside a scheduler task, so publications racing a Stop() are covered at operation granularity (published before Stop() and still queued / after Stop() returned but before the loop ended / after the loop ended), not at the granularity of the statements inside Stop(); Stop() is called at most once per service and only after Start() (a second Stop() panics on the closed channel)",
    "callbacks are the scripted family: a finite program of subscribe/unsubscribe/clear/publish/global-publish actions, not run deeper than nesting level 2 (bounds the Go stack)",
    "an unsubscribe-by-callback whose target is ambiguous (several listeners with that code pointer in the list; the code leaves the choice to map order) is not issued",
    "listener ids are compared as creation-order tokens; event names and arguments are integer tokens",
]
TECHNIQUE = ("Coq proof (trace semantics: the model may only emit events allowed by a history-function specification; induction over "
             "operations and nesting depth with a loop invariant for the dispatch loop, for every iteration order; the executing goroutine is a parameter of the "
             "dispatch and must own the centre) + differential "
             "correspondence against the real LocalEventCenter / GlobalEventCenter / light.EventCenter / StandardRunService with re-entrant scripted listeners that "
             "report their goroutine, under a deadlock watchdog")
LEVEL_TEXT = ("Machine-checked Coq theorems over all histories, all listener programs and all map-iteration orders: each publication invokes "
              "exactly the listeners subscribed to that centre and name at the time of the call, at most once, and every one still subscribed at the end; "
              "arguments are bound ++ published; an unsubscribed listener / a cleared centre's listener is never invoked again (also when that happens "
              "inside a listener of the same publication); a global publication appends exactly one copy to the queue of every centre with a live global "
              "subscription unless the queue holds 999; nothing blocks except a channel-mode send on a full queue; every listener invocation happens on the goroutine that owns "
              "its centre - the run service's loop from Start() until the loop has ended, the driver otherwise - for every history including teardown: events pending when Stop() is called "
              "(by a foreign goroutine, by the loop's own task or by a listener) are delivered by the loop before Stop() or dropped, never delivered elsewhere and never after the Clear() "
              "inside Stop(); after Stop() nothing is received, subscribed, stopped or started again and the loop ends; a Subscribe / Unsubscribe held inside the global centre has, once it returns, the sequential "
              "outcome for every interleaving of the other centres' operations, and publications then reach exactly the registered centres. The model is tied to the Go code by running "
              "both on the same histories each run and comparing the complete event traces.")
