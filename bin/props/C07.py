ID = "C07"
N_QUICK = 500
N_THOROUGH = 12000
MODEL_SHOW = "run_s"
DISAGREE_IS_VIOLATION = True   # observables are exactly what the property fixes
RULE = ("exhaustive: (views) every two-node view over 5x5 service-list alphabets in every combination of node states "
        "{init,working,retired} (thorough: 5 states), each probed with 16 calls with the node's own address unset and then 9 more "
        "(default rule via Request/Notify/RoutePID/Route, explicit name, QuerySession, work list, two calls in flight) asked as node 1, "
        "as node 2 and as a node the view does not list (Cluster.InitSelf), so the asking node is working / not working / hosting the "
        "type or not / the only host; (rules) 9 route functions x 5 default modes x 18 "
        "parameters (nil, sessions, maps, explicit names incl. unknown/empty/reserved, 4 non-parameter values) through Route, Request, "
        "Notify, RoutePID; (routes) every route of 0-4 (thorough 0-5) segments over {\"\",s1,s5}; (updates) every sequence of <=2 "
        "(thorough <=4) view updates over 4 views with probes after each; (calls) 2-4 calls in flight together, one per worker service "
        "goroutine, run by a token-passing scheduler under the schedule the op carries: rules (registered and default) that stop at "
        "scheduling points before / between / after reading their key, every ordered pair of 8 parameters (nil, 2 sessions, 3 key maps, "
        "name, non-parameter) as Request/Request (different routes), Route/Notify, RoutePID/Request under 3 schedules, plus 3- and 4-call "
        "mixes incl. malformed routes; (nested) a rule that calls Route(2,q) before reading its own key / between two reads with "
        "scheduling points around it, x 5 inner rules (reader, kind switch, panicking, routing on to type 3, absent = default) x 8 nested "
        "x 8 own parameters, alone (old ops and single-call OCalls) and 2-3 at a time. For every call of an OCalls the observation also "
        "carries, per rule invocation and nesting depth, the kind it was handed, the value p.Get returned for each key it read and the "
        "answer of each nested Route; (registers) rules that call Register: lazily installing the rule of the type they then route, "
        "replacing / removing their own registration while running, the default function registering and unregistering, x 8 parameters, "
        "alone and in flight; a Register by another goroutine (new rule / replacement / removal, same and other type) at every position "
        "of the schedule of two calls whose rules stop before and after a nested call. A call that neither returns nor reaches a "
        "scheduling point within the watchdog (3 s, 0.4 s after the first) is observed as BHang, which no model run shows; the history "
        "ends there, the driver is rebuilt, generation stops after 3 hung histories. random: 1-45 ops, OSelf, 1-4 calls per OCalls "
        "with random schedules incl. Register entries, rules with random prefixes (yield / read / nested call / Register; nested calls "
        "and registrations go to higher types only, so no cycles), <=4 nodes (duplicate ids/addresses "
        "possible), states 0-5, <=4 services per node incl. malformed entries and reserved names, scripted route functions incl. "
        "panicking. Non-trivial = the history makes at least one routing decision while the view lists a service or a route function "
        "is installed; distinct = distinct op sequences.")
TRUSTED_BASE = [
    "Coq 8.16.1 kernel + vm_compute (case evaluation, Examples, refutation witness); no native_compute",
    "hand translation node/route/route.go, node/app/{utils,serviceutils,clusterservices,cluster}.go -> C07/Model.v, measured by this correspondence run",
    "Go harness harness/c07 (sender middleware + callback log on real NodeServices (1 driver + 4 workers) in a local protoactor system, token<->string maps, scripted route functions built from op data which record what they are handed / read / get back, token-passing scheduler for OCalls (Model.sim is its executable model), watchdogs for calls that never return), bin/check.py JSON->Coq term printer",
    "hook node/route/verif_export.go (tag verif): VerifDefaultRoute() getter so the harness can reinstall node/app's default route",
    "modelled not verified: protoactor (Send to a PID = delivery to the actor of that address+name; checked for the local address by recording actors), "
    "Go map iteration order over service types (model returns the set of admissible directory answers, compared by membership), "
    "remote.Serialize of the payload (a valid protobuf message is used), Service.RequestEx bookkeeping after the send (C01)",
]
ASSUMPTIONS = [
    "every routing call is made from the owning service's goroutine, as service.go requires; several services may be inside the route "
    "layer at once. Proved for every interleaving of the calls at the granularity of Model.tstep (one read / type switch / nested call / "
    "scheduling point / return of a rule per step; the route layer's own work between two such steps is atomic); the harness explores "
    "interleavings at scheduling points inside route functions (AYield), one goroutine running at a time - word-level data races inside "
    "the route layer are outside both",
    "route functions are deterministic programs over: reads of the parameter they are handed, its kind, RouteService.Route, "
    "RouteService.Register, scheduling points (Model.prog, arbitrary continuations); rules do not consult each other in a cycle "
    "(unbounded recursion is a fatal stack overflow in Go); the executable model follows 8 levels of nesting, 2000 steps per scheduler "
    "turn, 400 turns",
    "the route layer never makes a call wait (Model.tstep is total): a design in which Route or Register block on each other is outside "
    "the model, and the harness reports a turn that does not end within the watchdog as a hang",
    "service names are cluster-unique and none is one of the reserved words bad_route_param / miss_route_func / no_service "
    "(cell2 logs duplicates as an error); C07_default needs both for the chosen name, C07_target needs 'the view maps the name to one pid'; "
    "without them the proven statement is the weaker 'the single send goes to some entry carrying the name the rule returned'",
    "what a route function ANSWERS is an arbitrary total function (name or panic) of service type and parameter (Model.rfn); the only "
    "routing state it may change is the set of registered functions, through Register",
    "an empty service type (route \".g.m\") counts as a malformed route (SplitClientRoute's marker for malformed is the empty type)",
]
TECHNIQUE = ("Coq proof (executable model of Route/doRoute/RoutePID/defaultRoute/Request/Notify/QuerySession/Kick over arbitrary route functions "
             "and views; theorems by case analysis and induction over views/histories) + differential correspondence against the real "
             "route.RouteService, app.Cluster and app.Request/Notify/QuerySession/Kick on a real NodeService")
LEVEL_TEXT = ("Machine-checked Coq theorems (44, all closed under the global context), unbounded over views, route functions, "
              "parameters, routes and histories: target (exactly one send, to the pid the view maps the rule's name to, nothing else), "
              "default (an instance of the type on a working node; guards unique/non-reserved name, with a refutation witness for the "
              "unguarded statement), no_service (every listed cause: no send, exactly one no-service callback / nothing), "
              "never_elsewhere, request_not_dropped, reserved_never_target, registered_wins (a panicking function does not fall back), "
              "front_* (QuerySession/Kick), view_updates (decision = function of the last view, last registrations, last default), "
              "self_irrelevant (no decision reads the node's own address), registered_after(_register), "
              "monitor soundness; for calls that overlap or nest and rules that change meanwhile, over arbitrary rule programs (reads, nested "
              "Route, Register, scheduling points), pools and schedules incl. Register by other goroutines: interleaving_frame (a step changes "
              "one goroutine and the registered rules only; tstep is total - no call waits for another), table_written_by_register_only, "
              "interleaving_frame_stable (nobody registers => a goroutine's state after any schedule = its own steps alone), eval_adequate, "
              "rule_sees_own_param (alone) and rule_sees_own_param_any_schedule (+ scheduler_turn_is_steps / scheduler_run_sees_own_param "
              "for the harness scheduler), nested_call_is_call / nested_call_frame, nested_result (the name is route's), "
              "decision_frame(_table). The model follows the code repaired by hooks/C07-fix-*.patch and is tied to it by running both on "
              "the same histories each run; the property monitor is additionally evaluated on the implementation's own trace.")
