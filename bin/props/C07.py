ID = "C07"
N_QUICK = 500
N_THOROUGH = 12000
MODEL_SHOW = "run_s"
DISAGREE_IS_VIOLATION = True   # observables are exactly what the property fixes
RULE = ("exhaustive: (views) every two-node view over 5x5 service-list alphabets in every combination of node states "
        "{init,working,retired} (thorough: 5 states), each probed with 16 calls; (rules) 9 route functions x 5 default modes x 18 "
        "parameters (nil, sessions, maps, explicit names incl. unknown/empty/reserved, 4 non-parameter values) through Route, Request, "
        "Notify, RoutePID; (routes) every route of 0-4 (thorough 0-5) segments over {\"\",s1,s5}; (updates) every sequence of <=2 "
        "(thorough <=4) view updates over 4 views with probes after each. random: 1-45 ops, <=4 nodes (duplicate ids/addresses "
        "possible), states 0-5, <=4 services per node incl. malformed entries and reserved names, scripted route functions incl. "
        "panicking. Non-trivial = the history makes at least one routing decision while the view lists a service or a route function "
        "is installed; distinct = distinct op sequences.")
TRUSTED_BASE = [
    "Coq 8.16.1 kernel + vm_compute (case evaluation, Examples, refutation witness); no native_compute",
    "hand translation node/route/route.go, node/app/{utils,serviceutils,clusterservices,cluster}.go -> C07/Model.v, measured by this correspondence run",
    "Go harness harness/c07 (sender middleware + callback log on a real NodeService in a local protoactor system, token<->string maps, scripted route functions built from op data), bin/check.py JSON->Coq term printer",
    "hook node/route/verif_export.go (tag verif): VerifDefaultRoute() getter so the harness can reinstall node/app's default route",
    "modelled not verified: protoactor (Send to a PID = delivery to the actor of that address+name; checked for the local address by recording actors), "
    "Go map iteration order over service types (model returns the set of admissible directory answers, compared by membership), "
    "remote.Serialize of the payload (a valid protobuf message is used), Service.RequestEx bookkeeping after the send (C01)",
]
ASSUMPTIONS = [
    "routing calls are made from the owning service's goroutine (sequential), as service.go requires",
    "service names are cluster-unique and none is one of the reserved words bad_route_param / miss_route_func / no_service "
    "(cell2 logs duplicates as an error); C07_default needs both for the chosen name, C07_target needs 'the view maps the name to one pid'; "
    "without them the proven statement is the weaker 'the single send goes to some entry carrying the name the rule returned'",
    "route functions are arbitrary total functions (name or panic) of service type and parameter; they do not mutate routing state",
    "an empty service type (route \".g.m\") counts as a malformed route (SplitClientRoute's marker for malformed is the empty type)",
]
TECHNIQUE = ("Coq proof (executable model of Route/doRoute/RoutePID/defaultRoute/Request/Notify/QuerySession/Kick over arbitrary route functions "
             "and views; theorems by case analysis and induction over views/histories) + differential correspondence against the real "
             "route.RouteService, app.Cluster and app.Request/Notify/QuerySession/Kick on a real NodeService")
LEVEL_TEXT = ("Machine-checked Coq theorems (27, all closed under the global context), unbounded over views, route functions, "
              "parameters, routes and histories: target (exactly one send, to the pid the view maps the rule's name to, nothing else), "
              "default (an instance of the type on a working node; guards unique/non-reserved name, with a refutation witness for the "
              "unguarded statement), no_service (every listed cause: no send, exactly one no-service callback / nothing), "
              "never_elsewhere, request_not_dropped, reserved_never_target, registered_wins (a panicking function does not fall back), "
              "front_* (QuerySession/Kick), view_updates (decision = function of the last view, last registrations, last default), "
              "monitor soundness. The model follows the code repaired by hooks/C07-fix-*.patch and is tied to it by running both on "
              "the same histories each run; the property monitor is additionally evaluated on the implementation's own trace.")
