ID = "C06"
N_QUICK = 500
N_THOROUGH = 8000
MODEL_SHOW = "map run_op"
DISAGREE_IS_VIOLATION = True
RULE = ("every byte string of length <= 1 and (quick: every 37th / thorough: every) 2-byte string through message.Decode with model comparison; "
        "exhaustive no-panic sweep of all strings of length <= 2 (quick) / <= 3 (thorough, 16.8M) through Decode, packet Decode and ParseHeader; "
        "packet length boundaries incl. 2^24-1, 2^24, 2^24+1; dictionaries; random valid messages (all types, ids at 7-bit group boundaries up to 2^64-1, "
        "routes 0..255 bytes and beyond, dictionary routes, compression on/off with the real zlib as oracle, error flag) encoded, decoded, corrupted "
        "(truncate/flip/extend/unterminated id) and framed; random packet streams with partial tails, bad types and length lies. "
        "Non-trivial = at least one call returned a value (not an error); distinct = distinct op lists.")
TRUSTED_BASE = [
    "Coq 8.16.1 kernel + vm_compute (case evaluation, Examples); no native_compute",
    "hand translation message_encoder.go / message.go / pomelo_packet_{encoder,decoder}.go / codec/utils.go -> C06/Model.v, measured by this correspondence run",
    "zlib (compression.DeflateData/InflateData) is an oracle: theorems assume inflate (deflate d) = Some d (Section hypothesis); the harness feeds the model what the real zlib returned",
    "Go harness harness/c06 (slices passed with cap == len so Go's bounds checks fire exactly at len; recover() turns a panic into the observable RPanic), bin/check.py term printer",
    "modelled not verified: Go slice/index bounds semantics (idx/slice), uint as Z mod 2^64, byte as Z in [0,256), bytes.Buffer.Next",
]
ASSUMPTIONS = [
    "routes registered with SetDictionary carry no surrounding white space (strings.TrimSpace is not modelled)",
    "the route dictionary is not modified concurrently with Encode/Decode",
    "OSweep compares only the number of panicking inputs (0 by theorem C06_total)",
]
TECHNIQUE = "Coq proof (round-trip and totality theorems over all messages / all byte strings, varint by induction, 3-byte length by div/mod arithmetic) + differential correspondence against the real codec incl. exhaustive small inputs"
LEVEL_TEXT = ("Machine-checked Coq theorems: decode(encode m) = m on the carried fields for every valid message, packet streams decode to the same packets, "
              "and for EVERY byte string message/packet/header decoding returns a value or an error, never Panic (Go bounds semantics modelled explicitly) and terminates. "
              "Tied to the Go code by running model and implementation on the same inputs each run, with every result (bytes, fields, error kind, panic) compared.")


def disagree_is_violation(case):
    """A differing codec result is itself the failing input, except for the live-socket framing
    ops: there the property only requires that the valid packets at the head of the stream are
    handed up unchanged and that nothing panics (the monitor); a different error kind or a different
    treatment of the malformed remainder breaks the correspondence but not the property."""
    def name(o):
        return next(iter(o)) if isinstance(o, dict) else o
    return not all(name(o) in ("OFramed", "OWsFramed") for o in case.get("ops", []))
