ID = "C10"
N_QUICK = 1500
N_THOROUGH = 30000
MODEL_SHOW = "model_run"
DISAGREE_IS_VIOLATION = True   # observables are exactly what the property fixes
HARNESS_TIMEOUT = 900
RULE = ("fixed: THE CLOSING WINDOW (a script kicks its connection - BackSession.Kick / app.Kick -> sys.kick closes the socket - then binds, sets the routing key, pushes and queries while the session is still registered; the OnClose handlers' view (SetOnCloseHandler and AddOnSessionClose) must contain every push; on a live and on a removed connection); HANDLERS THAT ANSWER FIRST AND KEEP THEIR SESSION (room.h.keep stores ctx.Session after responding; two connections' kept sessions used alternately on the same back-end, with queries, dumps, pushes and a removal in between); WRITES EQUAL TO A STALE VIEW (unbind through a back-end-created session, a queried value, the id a request arrived with - after somebody else wrote the key); pipelined scripts (set, push not awaited, set, [acks], push; re-routing inside a script; queries inside a script, on a live and on a removed connection); the chat2 login sequence (bind + routing key on the front, forward, back-end set/push); later-push-wins across two back-sessions incl. the "
        "re-sent NewData; routing and bound id following pushed keys; pushes / queries / dumps for a removed connection with a second live connection "
        "as frame witness; a local unpushed value shadowing the queried one; value shapes (2^53-1, nested lists, null). random: 1-3 connections, 1-4 "
        "back-session handles living in chat-1 / chat-2 / room-1, 4-80 sequential operations (connect, remove, front set/bind/get/dump, forward, "
        "back new/set/bind/get/dump/push/query, and PIPELINED SCRIPTS on one back-session: 1-6 set / push / query steps run in one turn of the owning service, nothing awaited in between, 7% of them containing a kick, all callbacks collected afterwards; OForwardKeep; every removal reports the OnClose view; a third of all writes repeat a value already written to that key by anybody) over reserved key _ID (strings only), the routing key (instance names, unknown names, \"\", non-strings, null) "
        "and 3 user keys with ints, floats, strings, booleans, null, lists. Non-trivial = at least one map, value or forwarded envelope was observed; "
        "distinct = distinct op lists.")
TRUSTED_BASE = [
    "Coq 8.16.1 kernel + vm_compute (case evaluation, Examples); no native_compute",
    "hand translation session/{frontsession,backsession,sessiondata}.go, impls/sessions.go PushSession, builtin/system.go PushSession/QuerySession, impls/forwarder.go (stamping, routing parameter), app.QuerySession -> C10/Model.v, measured by this correspondence run",
    "encoding/json is an oracle: values are abstract, the JSON round trip is the Section variable rt with hypothesis rt (rt v) = rt v (used by C10_set_push_query only); the concrete instance used for correspondence (Corr.crt: ints come back as floats, recursively in lists) is proved idempotent (C10_concrete_rt_idempotent)",
    "route functions are a Section variable (arbitrary function of the session map); Go map iteration order is unobservable (maps are sorted association lists; dumps are compared sorted by key)",
    "Go harness harness/e2e + harness/c10 (front-local handlers calling FrontSession.Set/Bind/Get/ToJson, real BackSession objects created with NewBackSession inside chat-1/chat-2/room-1 and driven from their service context, forwarded requests reporting the BackSession ProcessForwardMsg built from the envelope; connection ids reported as connection tokens), bin/check.py term printer",
    "asynchrony: driver operations are issued one at a time and acknowledged before the next, EXCEPT inside OBackScript, whose steps run without yielding the service goroutine so that every acknowledgement is handled after the last step (the interleaving in which an acknowledgement is handled BETWEEN two steps of one handler invocation cannot occur: a service is one goroutine); pushes of different back-ends racing each other are C03's subject",
]
ASSUMPTIONS = [
    "guard on reserved keys: _ID is only bound/pushed as a string, _NetId and _ServerId are never written by handlers (FrontSession.GetID / GetNetId and BackSession.FromJson type-assert and would panic)",
    "numbers are integral with |n| < 2^53 (exactly representable as float64); other JSON-representable values are covered by the abstract rt in the theorems but not generated",
    "the closing window is reached deterministically: the front's goroutine is occupied for 8 ms while the script's sys.kick / sys.pushsession / sys.querysession messages queue up, so that they are handled in one mailbox run - the kick closes the connection, the posted RemoveSession runs after that run; other ways of closing (client drop, heartbeat time-out, write error) flip the same IsClosed state and post the same RemoveSession",
    "a back-session is created for a connection that exists or existed (its id is the one the server allocated); `never existed` ids take the same code path as removed ones (findSession returns nil)",
    "the front service named by BackSession.ServerId exists (a missing front is C07's F10: the callback never runs)",
]
TECHNIQUE = "Coq proof (refinement of the model to history functions defined by recursion on the history, by induction over operations; algebra of key-by-key merge) + differential correspondence against real FrontSession/BackSession objects in a running node"
LEVEL_TEXT = ("Machine-checked Coq theorems for every operation history, every value type and JSON normalisation, every route function: the front-end's per-connection map is exactly the fold of key-by-key merges of the writes addressed to it "
              "(pushed value wins per key, untouched keys persist, other connections untouched), a query returns the whole current map, every forwarded request is routed by the current map and stamped with the currently bound id, the front's name and the connection id, "
              "pushes to a dead connection change nothing and queries report an error; every Get/ToJson result of every operation is determined by the history functions. Tied to the Go code by running model and implementation on the same histories each run and comparing every result.")
