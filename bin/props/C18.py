import os, sys
sys.path.insert(0, os.path.dirname(os.path.dirname(os.path.abspath(__file__))))
import mmo_overlay

ID = "C18"
N_QUICK = 700
N_THOROUGH = 20000
MODEL_SHOW = "show"
DISAGREE_IS_VIOLATION = True   # outputs and the full table dump are exactly what the property fixes
HARNESS_DIR = mmo_overlay.HARNESS_MMO
HARNESS_BIN = "c18"
EXTRA_SUMS = [mmo_overlay.MMO_SUM]


def prepare_build(repo, bdir):
    """regenerate the overlay module `mmo` (servers/center, servers/center/handler and their mmo dependencies,
    verbatim, plus the white-box accessor file) from the CURRENT text of repo/_projects/mmo/server and check
    that it compiles"""
    return mmo_overlay.prepare(ID, repo, bdir)


_desc = mmo_overlay.describe(ID)

RULE = ("exhaustive: every sequence of length <= 3 (quick) / 4 (thorough) over the 9-symbol alphabet {login with kick from a "
        "new connection, connection closed, offline acknowledged, LogicLogined, ReqLogout, LogicLogout, timer tick, +120 s, "
        "LogicReOnline} on one account from the empty table, every sequence of length <= 2 / 4 over the same alphabet and over "
        "{login without kick, ReqSwitchLine, SwitchLineEnd, AbnormalLogout, +180 s, +30.001 s (, closed, offline ack)} after "
        "'logged in', thorough also length <= 5 over {login, login without kick, closed, offline ack, +30.001 s, tick} after "
        "'logged in with a parked login'; each followed by a probing login and a tick. random: 4-94 operations over 1-3 accounts, "
        "fronts 1-3 (3 is not in the cluster directory), logic services 1-3 (3 not in the directory: onoffline fails "
        "synchronously), a new connection id per login, generated while executing on the real centre so that operations aim at "
        "the current table (close an open connection, acknowledge an outstanding onoffline, LogicLogined for a Logining record "
        "...); clock steps aim at every deadline in the table (state deadline, lock limit, parked-login expiry, next expiry "
        "scan) exactly at / one below / one above, or are drawn from the constants 0..1800001 ms. 3 of 5 random histories keep to "
        "the protocol (conformant stream), 2 of 5 do not (connection id 0, logic notifications for dead or unknown loads, clock "
        "set back, account ids 0 / negative / 2^40): those are compared with the model in full, the monitor applies the "
        "guarded clause (reconnect) only while the history is conformant and all other clauses always. Non-trivial = some "
        "fresh load was authorised and some request was refused or parked, a reconnect authorised, or a record removed; "
        "distinct = distinct op sequences.")
TRUSTED_BASE = [
    "Coq 8.16.1 kernel + vm_compute (case evaluation, Example); no native_compute",
    "hand translation servers/center/{playermgr,player,transactionlock,kickwait,define}.go + common/statewithtimeout.go -> C18/Model.v, "
    "measured by this correspondence run (outputs and the full table dump after every operation)",
    "Go harness harness_mmo/c18: real handler.NewService() + real handler.Entry remote methods + real app.Kick/app.Request/route/"
    "cluster directory; recording actor.Context in the exported actorex Service.Context field (sends are logged, the answer to "
    "onoffline is injected through the real Service.Receive); white-box accessors harness_mmo/whitebox/servers/center/verif_c18.go "
    "(copied into the overlay's center package: reads the tables, calls update()); harness_mmo/hx; bin/check.py JSON->Coq printer",
    "virtual clock utils/common.VerifSetNowMs (build tag verif)",
    "overlay module (bin/mmo_overlay.py): copied verbatim from the repo on every run: " + ", ".join(_desc["copied"]),
    "overlay stubs: " + (", ".join(_desc["stubbed"]) or "none (every mmo package the centre imports is copied whole)"),
    "modelled not verified: Go maps (as maps; update() and tryRemoveExpired act on each entry independently), protoactor mailboxes "
    "and the run-service timers (the harness calls update() itself and delivers the onoffline answer itself: every interleaving "
    "of the centre's single goroutine is a history), protobuf (de)serialisation of the requests, uint32 connection ids / int64 "
    "clock as Z",
]
ASSUMPTIONS = [
    "guard (only for C18_reconnect_guard): connection ids are not 0, the logic service notifies the centre (logged in, re-online, "
    "logout, abnormal logout) only about a load that was authorised and has not ended, the clock is not set back; "
    "C18_txn_exclusive needs only the clock part; the other theorems hold for every history",
    "a transaction also counts as over when the timer tick drops the account's record (logout completed, abnormal logout, or "
    "Logining/Logouting expiry): the lock lives in the record; the Logining state limit (2 min) is shorter than the login lock's (5 min)",
    "all calls are made from the centre service's goroutine (sequential), as in the actor",
    "kickwait.go tryRemoveExpired as repaired by hooks/C18-fix-kickwait-expire-all.patch",
    "the 30 s request timeout of actorex/service on an unanswered onoffline request runs the same callback as an error answer: both are the operation OfflineAck",
]
TECHNIQUE = ("Coq proof (inductive invariants over all histories with history functions live / logged_in / closed_reported / holder; "
             "a step-shape lemma that reduces every operation to its own update plus at most one login outcome; trace theorems by "
             "induction over the stretch between two events) + differential correspondence against the real centre through the mmo "
             "overlay module with white-box dumps + the property's boolean form evaluated on the implementation's own traces")
LEVEL_TEXT = ("Machine-checked Coq theorems for unbounded histories: no double load (all histories), reconnect guard (conformant "
              "histories), exclusive transactions lifted through every call site of the lock (clock not set back), every login "
              "answered at most once and to the right request (all histories), frame, and acceptance of every model trace by the "
              "monitor. Tied to the Go code by comparing every output and the full player / kick-wait table after every operation "
              "of each generated history, and by running the monitor on the implementation's traces.")


def extra_coverage(cases):
    rep = mmo_overlay.LAST.get(ID) or _desc
    return {"overlay": {"copied": rep["copied"], "stubbed": rep["stubbed"], "whitebox": rep["whitebox"]}}
