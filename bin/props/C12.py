ID = "C12"
N_QUICK = 320
N_THOROUGH = 6000
MODEL_SHOW = "run_items"
DISAGREE_IS_VIOLATION = False  # the exact publication sequence (e.g. a repeated identical state) is not fixed by the property; pure model disagreements are reported as such
RULE = ("exhaustive: one retirable service after query+retire, every sequence of length <= 4 (quick) / 6 (thorough) over "
        "{retire, retired(1), exit, stop-done, retired(unknown)}; two services (second supporting retirement or not), every "
        "sequence of length <= 3 / 5 over {query-all, retire, retired(1), retired(2), exit, stop-done}; resolvability changing under the "
        "controller: one service, every sequence of length <= 3 / 5 over {hide(1), show(1), query-all, retire, retired(1), exit}, and two "
        "services after query-all, every sequence of length <= 3 / 5 over {hide(2), show(2), retire, retired(1), retired(2), exit}; cluster membership "
        "changing under the controller (topology rebuilt, own services re-published with the node's current state): one service after query-all, every "
        "sequence of length <= 4 / 6 over {topo(1), retire, retired(1), exit, stop-done}, and two services, every sequence of length <= 3 / 4 over "
        "{topo(2), topo(0), query-all, retire, retired(1), notify(2), hide(2), show(2)}; the node's service list as a dimension: an entry the services section does not define "
        "at the first / middle / last position among two services (also with a service listed twice), every sequence of length <= 3 (2 for last / duplicates) / 4 (3) over "
        "{query-all, retire, retired(1), retired(2), exit, web_nodes}, and a list of undefined entries only (length <= 2); each followed by web_nodes. "
        "random: 0-4 hosted services with mixed dispositions (ok / no / no listener / error / absent, sometimes listed twice, in a quarter of the cases with one or two undefined entries at random positions of the list), "
        "life-cycle stories with noise, repetitions and premature commands, and uniformly random histories of 1-60 operations over "
        "stat/retire/exit/web_*/unknown commands, query-all/query-one, retired notifications (known, unknown, repeated, via the real "
        "NotifyServiceRetired), other service commands, stop-done(true/false) and hide/show of a service (GetService answers nil while hidden) placed around "
        "queries, retire, notifications and exit (shown again at once, much later, or never; retire re-issued afterwards), and membership changes (0-3 other members "
        "hosting services of the same types in assorted states) right before and/or right after queries, retire (also a repeated retire), every retired notification, "
        "exit and stop-done, and anywhere in the random histories; stories also have a report while the node is still working and retire repeated between the reports. Non-trivial = the node published at least one state or the node was stopped; distinct = distinct item sequences.")
TRUSTED_BASE = [
    "Coq 8.16.1 kernel + vm_compute (case evaluation, Examples); no native_compute",
    "hand translation nodectrl/{nodectrl,cmds,cmd,service_entry}.go, node/app/{app,cluster,clusterservices}.go as far as the controller uses them (GetService over the service directory with per-service state copies, FilterSelfServices, UpdateNodeState, StopNode) (+ the answers of node/builtin/ctrlcmd.go) -> C12/Model.v, measured by this correspondence run",
    "Go harness harness/c12: every case starts a real node in-process (app.Node.Prepare/StartNode on configuration files written for the case; launch mode of three socket-free modules: shared actor system whose address is the node address, a cluster.Provider modelled on clusterproviders/etcd - UpdateClusterState only records the own state, topologies are published on membership / service-list changes with member copies - and a gate module whose Stop is the observed 'node stopped' and completes on OStopDone); hosted services created by App.StartServices through service.Factory with a scripted ICtrlCmdListener; commands sent to the admin at member host:port + define.NodeAdmin as _tools/master does; settle barrier through the actors' mailboxes, received ctrl.cmd sorted by service; nodectrl/verif_export.go (tag verif); bin/check.py JSON->Coq term printer",
    "modelled not verified: protoactor local delivery and the actorex mailbox (FIFO per mailbox), actorex/service request/response matching, apimapper dispatch, JSON rendering of web_nodes; the 3 s start-up timer is replaced by explicit query operations; request time-outs (30 s) never fire within a case",
]
ASSUMPTIONS = [
    "NodeCtrl is only touched from the admin service's goroutine: commands, query acks, service notifications and the StopNode completion are processed one at a time (the harness completes the gate module's Stop in the admin context, so the rest of baseapp.App.Stop and NodeCtrl's completion run there; in a deployed node they run wherever the last module's Stop completes)",
    "topology publications (Cluster.UpdateClusterTopology) happen between controller operations, not concurrently with one (the etcd provider calls it from its watch goroutine; ClusterServices replaces its maps wholesale without a lock)",
    "the cluster provider behaves like clusterproviders/etcd: UpdateClusterState records the own state and does not publish a topology; a topology is published on membership changes, the own member always included with the state recorded last; no other member hosts a service with the name of an own service (MakeMembers keeps whichever it meets first and logs 'duplicate service name')",
    "the set of hosted services is fixed at NodeCtrl.Start (makeServices); a service's answer to queryretire does not change over time; whether INodeApp.GetService resolves it MAY change at any time (OHide/OShow: a topology whose own member lacks / again lists the service), the service itself keeps running; a configured service that no process runs for (DAbsent) is listed in the directory like any other, the command sent to it is lost",
    "service names are arbitrary distinct strings (tokens in the model); a name listed twice in the node configuration denotes one service; a name is either defined in the services section or not (an undefined list entry never shares its name with a hosted service)",
]
TECHNIQUE = ("Coq proof (state machine of the repaired NodeCtrl over the node application's service directory; invariant tying its fields to history functions "
             "`declared`/`reported`/`hidden` and to the published-state trace, by induction over operations; simulation between a history and the same history "
             "without membership changes) + differential correspondence against the real NodeCtrl under the real node/app.App, driven through its admin actor")
LEVEL_TEXT = ("Machine-checked Coq theorems over all configurations and all operation histories: retire guard (iff), every hosted service resolvable at that moment told (and only those), a service that did not itself report retired never counted as retired, "
              "retired only after / as soon as all services reported (in whatever order reports and accepted or refused retire commands came: a report is never lost, C12_reports_are_kept), "
              "retirement support declared by the answer to the support query and by nothing else (C12_support_only_by_query), exit guard (iff), StopNode at most once and exactly once per accepted exit, "
              "entries of the node's service list that the services section does not define are invisible (hosted = the defined entries in order, C12_undefined_entries_invisible), "
              "published states monotone, refused commands are no-ops, the service directory as a function of the history (entries = hosted services the topology lists, each with the "
              "node state copied at the last topology publication, stale in between), name resolution and hence command delivery independent of those state copies "
              "(erasing every membership change from any history leaves all other observations unchanged), and the executable monitor accepts every model trace. The model is tied to the "
              "Go code by running both on the same histories each run; the monitor (the theorems' statements, both directions of the retired clause and the per-service view shown by web_nodes "
              "included: exactly the started services enumerated, retired iff reported, supporting iff declared; the support query reaching every started resolvable service) is also evaluated on the implementation's own traces.")
