ID = "C12"
N_QUICK = 320
N_THOROUGH = 6000
MODEL_SHOW = "run_items"
DISAGREE_IS_VIOLATION = False  # the exact publication sequence (e.g. a repeated identical state) is not fixed by the property; pure model disagreements are reported as such
RULE = ("exhaustive: one retirable service after query+retire, every sequence of length <= 4 (quick) / 6 (thorough) over "
        "{retire, retired(1), exit, stop-done, retired(unknown)}; two services (second supporting retirement or not), every "
        "sequence of length <= 3 / 5 over {query-all, retire, retired(1), retired(2), exit, stop-done}; resolvability changing under the "
        "controller: one service, every sequence of length <= 3 / 5 over {hide(1), show(1), query-all, retire, retired(1), exit}, and two "
        "services after query-all, every sequence of length <= 3 / 5 over {hide(2), show(2), retire, retired(1), retired(2), exit}; each followed by web_nodes. "
        "random: 0-4 hosted services with mixed dispositions (ok / no / no listener / error / absent, sometimes listed twice), "
        "life-cycle stories with noise, repetitions and premature commands, and uniformly random histories of 1-60 operations over "
        "stat/retire/exit/web_*/unknown commands, query-all/query-one, retired notifications (known, unknown, repeated, via the real "
        "NotifyServiceRetired), other service commands, stop-done(true/false) and hide/show of a service (GetService answers nil while hidden) placed around "
        "queries, retire, notifications and exit (shown again at once, much later, or never; retire re-issued afterwards). Non-trivial = the node published at least one "
        "state or called StopNode; distinct = distinct item sequences.")
TRUSTED_BASE = [
    "Coq 8.16.1 kernel + vm_compute (case evaluation, Examples); no native_compute",
    "hand translation nodectrl/{nodectrl,cmds,cmd,service_entry}.go (+ the answers of node/builtin/ctrlcmd.go) -> C12/Model.v, measured by this correspondence run",
    "Go harness harness/c12 (recording INodeApp/cluster.Provider, scripted ICtrlCmdListener, settle barrier through the actors' mailboxes, received ctrl.cmd sorted by service), nodectrl/verif_export.go (tag verif), bin/check.py JSON->Coq term printer",
    "modelled not verified: protoactor local delivery and the actorex mailbox (FIFO per mailbox), actorex/service request/response matching, apimapper dispatch, JSON rendering of web_nodes; the 3 s start-up timer is replaced by explicit query operations; request time-outs (30 s) never fire within a case",
]
ASSUMPTIONS = [
    "NodeCtrl is only touched from the admin service's goroutine: commands, query acks, service notifications and the StopNode completion are processed one at a time (the harness delivers the StopNode completion in the admin context; app.App.StopNode calls it from the application's run service)",
    "the set of hosted services is fixed at NodeCtrl.Start (makeServices); a service's answer to queryretire does not change over time; whether INodeApp.GetService resolves it MAY change at any time (OHide/OShow), the service itself keeps running",
    "service names are arbitrary distinct strings (tokens in the model); a name listed twice in the node configuration denotes one service",
]
TECHNIQUE = ("Coq proof (state machine of the repaired NodeCtrl; invariant tying its fields to history functions `declared`/`reported` and to the "
             "published-state trace, by induction over operations) + differential correspondence against the real NodeCtrl driven through its admin actor")
LEVEL_TEXT = ("Machine-checked Coq theorems over all configurations and all operation histories: retire guard (iff), every hosted service resolvable at that moment told (and only those), a service that did not itself report retired never counted as retired, "
              "retired only after / as soon as all services reported, exit guard (iff), StopNode at most once and exactly once per accepted exit, "
              "published states monotone, refused commands are no-ops, and the executable monitor accepts every model trace. The model is tied to the "
              "Go code by running both on the same histories each run; the monitor (the theorems' statements) is also evaluated on the implementation's own traces.")
