ID = "C04"
N_QUICK = 600
N_THOROUGH = 12000
MODEL_SHOW = "run"
HARNESS_TIMEOUT = 600
# Most of what is compared is the selector's internal bookkeeping (a harmless refactoring of
# MultiSelector would change it): a disagreement alone is reported as "no failing input found";
# the monitor (owner of a handled value, FIFO/exactly-once, one goroutine, one piece at a time,
# everything executed) is what decides a VIOLATION.
DISAGREE_IS_VIOLATION = False
RULE = ("scripts against the real sche.MultiSelector/Sche driven step by step: 13 boundary histories (full channel, close with pending values, "
        "dead selector dropped, double registration, Post after Stop, 9/10/11 registrations without the consumer running, the selector layout of a service); "
        "exhaustive: every sequence of length <= 3 (quick) / 5 (thorough) over {AddSelector x2, send x2, close, HandleOnce} on two channels; "
        "random: 4-80 ops (sends incl. on closed/full channels, HandleOnce, AddSelector while running incl. bursts of 9-13, close, bad ids), followed by HandleOnce until idle; "
        "measurement: 16 (quick) / 150 (thorough) OStress cases, each in a child process, on a running instrumented NodeService with concurrent producers of all 11 work kinds "
        "(1-3 requesting services, 1-4 timer goroutines, 8 posters, 1-3 publishers of local+global events, 1-6 fake client connections; every third case with 1-12 requests timing out through the virtual clock; "
        "3 of 8 cases start with an OVERFLOW phase: the service is held inside a handler while foreign goroutines produce 1000-2200 items of the kinds with a bounded queue (local or global events, posted closures, timers, session messages: capacity 999) "
        "and 200-1300 requests - producers must block (global events: be dropped), nothing may run off the held loop goroutine, after the release everything accepted is executed; "
        "1 of 8 cases first crashes the service actor (handler panic -> supervisor restart -> producer runs again), 1 of 8 spawns the same props twice (two actors on one run service); "
        "every case also runs 1-12 rounds of BOUNDARY work: timers that are already due (delay 0, -1ns, -3s), 1ns, 1ms, period-0 and repeating (cancelled from their 3rd callback) armed from foreign goroutines - "
        "also while the service is held busy - and work produced from INSIDE a posted closure, a timer callback, an event listener and a request handler of the service itself (timers already due, Post to its own scheduler, "
        "Publish on its own event centre): every such piece must run on the loop goroutine and must not start before the piece that produced it has ended (nesting shows as two pieces in flight); "
        "3 of 8 cases spawn 2, 9, 10, 11, 12 or 30 actors from ONE props (one dispatcher queue of 9 mailbox batches, one run service): while the loop is held every actor gets a request, so from 11 actors on the posters must block in scheDisp.Schedule; "
        "every third case has the service's event centre in DIRECT mode (no local events are produced then; global events, published by foreign goroutines and by other services on their goroutines in every case, must still arrive through the channel); "
        "every fourth case ends with a TEARDOWN phase: while connections send, close and open on their network goroutines, timers are armed and expire, closures are posted, events are published and requests arrive, "
        "the run service is stopped (by the service itself from inside a handler that keeps working, or by a foreign goroutine); afterwards work may be dropped but whatever still runs must be on the loop goroutine, one piece at a time (teardown work is checked, not counted); "
        "every case involves a SECOND instrumented service (own run service, timer manager, loop goroutine, probe): 1-4 rounds in which 8 timers of the first service expire while it is held busy and are cancelled in its timer queue "
        "(half by the service, half by a foreign goroutine) while the second service arms 16 timers of its own - every callback is observed with (owning service, goroutine); "
        "session traffic uses all four client message types (Request, Notify, Response, Push) with a custom kick handler installed, every session-side piece observed for its goroutine; "
        "every fifth case a lopsided single-kind mix). Non-trivial = a user handler ran at least once (scripts) / any stress case; distinct = distinct annotated op lists.")
TRUSTED_BASE = [
    "Coq 8.16.1 kernel + vm_compute (case evaluation, Examples); no native_compute",
    "hand translation utils/sche/selector.go (with hooks/C04-fix-addselector-nonblocking-wakeup) -> C04/Model.v, measured by the script correspondence; "
    "runservice.go / standardrunservice.go / schedisp.go / factory.go enter only as the order of AddSelector calls (service_ops) and the funnel table",
    "Go harness harness/c04: white-box read of MultiSelector.{dirty,selectors,cases,runnings,chanDirt} through reflect/unsafe (breaks loudly if a field is renamed); "
    "values tagged with the channel they were sent on; HandleOnce is only called when the real bookkeeping says some case is ready, every call under a 2 s watchdog; bin/check.py term printer",
    "measurement: goroutine id parsed from runtime.Stack + 'runservice.(*RunService).loop' in the goroutine's stack; reference goroutine obtained from a selector added to the service's own MultiSelector; "
    "atomic in-flight counter held for ~15us + Gosched at every entry point (overlap detection is probabilistic, goroutine identity is deterministic); "
    "a measurement whose process dies (e.g. 'fatal error: concurrent map writes' in the service's own unsynchronised state) is reported as EPanic and fails the monitor",
    "modelled not verified: Go channels (FIFO, close semantics, reflect.Select picks SOME ready case - the harness reports which), sync.Mutex sections as atomic steps, "
    "protoactor (mailbox -> Dispatcher.Schedule), time.AfterFunc, the Go scheduler; fairness of reflect.Select is NOT assumed by any theorem",
]
ASSUMPTIONS = [
    "the property text fixes WHERE a piece of a service's work runs, not THAT it runs: work produced after the run service was stopped may be dropped (Post after Stop, expiring timers, unsubscribed global events, queued events and mailbox batches never taken); it may not run anywhere but on the loop goroutine",
    "direct mode (SetLocalUseChan(false)) of the local event centre: a local Publish is a synchronous call inside the publishing piece and only the service itself may publish locally; the measurement produces no local events in that mode",
    "liveness is NOT claimed: on unchanged code an actor that sends, inside one handler, to >= 10 idle sibling actors of its own props blocks the service goroutine for good in scheDisp.Schedule "
    "(hooks/C04-repro-sibling-fanout-deadlock.patch), and a mailbox that re-schedules itself from the loop while the dispatcher queue is full would do the same; the many-actor stress cases are arranged so that neither happens "
    "(traffic that may arrive at any time goes to at most 9 mailboxes)",
    "HandleOnce is called from one goroutine only (runservice.RunService.loop is the only caller); Examples C04_two_consumers_* show what breaks otherwise",
    "handlers do not themselves close or re-register channels in the model (they are opaque: they record the value)",
    "progress theorem C04_no_task_lost: producers are quiescent while the consumer drains; under never-ending production eventual handling needs fairness of reflect.Select (not proved)",
    "global events are dropped by GlobalEventCenter.Publish when the receiving queue (999) is full; stress cases stay below that",
]
TECHNIQUE = ("Coq proof (inductive invariant of the MultiSelector machine over all event histories; interleaving model with one consumer and arbitrary producers over all schedules; "
             "termination measure for the drain) + differential correspondence of the real MultiSelector/Sche step by step + goroutine-identity / mutual-exclusion measurement on a running service")
LEVEL_TEXT = ("PARTIAL. Proved in Coq, for all histories / all schedules, about the MODEL of sche.MultiSelector and of the single consumer loop: runnings[i] always owns cases[i] and every handler invocation "
              "is for a value from its own channel (C04_selector_index, C04_handler_owns_channel); per channel, what was enqueued = what was handed to handlers, in order, exactly once, + what is still queued "
              "(C04_task_accounting); a queued task on a registered live channel is always selectable and a draining consumer hands over everything (C04_task_enabled, C04_no_task_lost); with ONE consumer process "
              "and arbitrary concurrent producers at most one task is running, run by the consumer, never an index panic, never parked on stale cases while work is pending (C04_one_at_a_time, C04_no_missed_wakeup, C04_handler_runs_to_completion, C04_producers_never_run_handlers); the same with any number of actor mailboxes feeding the dispatcher queue of capacity 9 (C04_dispatcher_one_at_a_time, C04_blocked_schedule_is_noop); teardown: stopping the run service and everything produced before or after it starts no piece, a Post on the closed queue changes nothing, and once the loop has ended nothing runs under any schedule (C04_only_the_consumer_starts_pieces, C04_post_after_stop_dropped, C04_nothing_runs_after_the_loop_ended); the monitor applied to implementation traces accepts every trace of the model (C04_monitor_sound). "
              "C04_funnel_total (every work kind has a channel whose items all reach the consumer) is true BY CONSTRUCTION of the funnel table. "
              "NOT provable in any Gallina model and therefore MEASURED on the running code each run: that the real entry points (request/notify handler, response and timeout callback, timer callback, "
              "posted closure, local/global event, session add/remove/message) really go through those channels and really execute on the service's one loop goroutine, one at a time - "
              "goroutine id + in-flight counter at every entry point of an instrumented NodeService under concurrent producers of every kind. The model is tied to utils/sche by step-by-step correspondence.")
