ID = "C09"
N_QUICK = 600
N_THOROUGH = 12000
MODEL_SHOW = "run"
DISAGREE_IS_VIOLATION = True   # the snapshot after EVERY atomic step is what the theorems are about
HARNESS_TIMEOUT = 900
RULE = ("one case = one controlled execution of the real SmoothFrameMailbox: programmes of 1-4 posters (0-6 user / Suspend / Resume / other system "
        "messages each), a cost-oracle bit list (none, single true, sparse, dense), and a schedule (list of thread ids: poster i, consumer, pause "
        "goroutine j) of which every entry releases that thread for exactly one atomic step (U1 U2 Y1 Y2 Y3 S1 S2 S3 C0 R1 BP R2 R3 R4 E1-E5 T1 T2); "
        "after each entry the shared words (userMessages, sysMessages, schedulerStatus, smoothPaused, suspended, queued dispatcher tasks, user-queue "
        "length, pause goroutines created) are compared with the model, plus the delivery logs at the end. Random schedules are drawn on line from "
        "where the REAL threads are parked: uniform, sticky (few context switches), race-biased (poster between U1/U2/Y2/Y3/S1/S2 while the consumer is in "
        "E1..E5; pause goroutine at T2 against S1/S2/E4/E5 of another thread), one lazy poster; 1 in 6 injects entries that cannot step (finished poster, "
        "idle consumer, unknown pause goroutine); 9 in 10 are extended by a fair round-robin suffix until no thread is enabled (tag quiescent), and every "
        "quiescent run ends with one probe entry per thread (each poster, the consumer, each pause goroutine, one index beyond): the real threads cannot "
        "step and the model must answer enabled=false for all of them, i.e. be quiescent itself - so a stall of the real mailbox with work left is a "
        "disagreement (C09_quiescent_drained speaks about exactly these states). "
        "Exhaustive: depth-first enumeration with stateless re-execution of ALL schedules (quick: preemption-bounded; thorough: unbounded for 1 poster x 2 "
        "messages, <= 3 preemptions for 2 posters x 1-2 messages with system messages / suspend+resume / one pause). Non-trivial = at least one message "
        "reached the invoker or the mailbox was suspended; distinct = distinct (programmes, oracle, schedule).")
TRUSTED_BASE = [
    "Coq 8.16.1 kernel + vm_compute (case evaluation, Examples); no native_compute",
    "hand translation actorex/mailbox/mailbox.go (PostUserMessage, PostSystemMessage, schedule, processMessages, run, beginSmoothPause) -> C09/Model.v, "
    "measured by this correspondence run after every single atomic step",
    "sync/atomic operations are sequentially consistent single steps (Load/Store/Add/CompareAndSwap on int32, Swap/Store/Load on the mpsc pointers); "
    "the Go memory model itself and runtime.Gosched are outside the Gallina model",
    "goring.Queue Push/Pop (the user queue) are atomic FIFO steps: mutex-protected in the code, justified by the C09ring theorems (Ring_refines_fifo, "
    "Mpsc_refines_fifo) and their own correspondence run",
    "protoactor's / actorex's dispatcher is replaced by the harness's single-consumer dispatcher (Schedule only queues, one goroutine takes one task at a "
    "time - the contract of actorex/disp/schedisp.go); the invoker is a recording stub; no mailbox middlewares; Throughput() is irrelevant (the "
    "runtime.Gosched it guarded is commented out)",
    "verifPoint placement (hooks/C09-hook-mailbox-verifpoints.patch): each point sits immediately before the one shared-memory operation the model counts "
    "as that step, so everything between two points touches shared state once; the point inside mpsc.Push sits between the swap and the store; "
    "the virtual NowNano makes `cost > maxProcessCost` exactly the oracle bit (false is driven at cost == maxProcessCost)",
    "Go harness harness/c09 (controller parks every logical thread on its own channel, goroutine ids from runtime.Stack, one thread released at a time), "
    "bin/check.py JSON->Coq term printer",
]
ASSUMPTIONS = [
    "a single consumer: the dispatcher runs the scheduled processMessages closures one after another (never two concurrently)",
    "userMessages stays below MaxMsgNumToSmooth = 100000 in the executed cases (the Gosched branch is modelled but never exercised)",
    "messages are not actor.MessageBatch (batch posting is a loop over PostUserMessage and is not exercised separately)",
    "the invoker does not panic (run()'s recover/EscalateFailure path is not modelled); the harness aborts if it is ever taken",
    "the 1 ms sleep of the pause goroutine is one silent step (T1); fairness of the Go scheduler is assumed only for the progress theorem",
]
TECHNIQUE = ("Coq proof (inductive invariant over ALL interleavings of posters, consumer and pause goroutines of the step-per-atomic-operation model: "
             "counters = queue contents minus in-flight posts, status = running iff exactly one activation, no lost wake-up, per-sender order) + "
             "differential correspondence against the real mailbox under a controlling scheduler: random race-biased schedules and exhaustive "
             "small-scope DFS, compared with the model after every step")
LEVEL_TEXT = ("Machine-checked Coq theorems over every schedule of the interleaving model (unbounded posters/messages): every message is delivered at most "
              "once and in per-sender order, at most one activation exists, and whenever no thread can step everything posted has been delivered (unless "
              "left suspended) - no lost wake-up. PARTIAL: the theorems assume sequentially consistent atomics and atomic mutex-protected queue "
              "operations (goring by the C09ring theorems); the Go memory model and the goroutine scheduler's fairness are not modelled. The model is tied "
              "to the Go code by executing the real mailbox under a controlling scheduler and comparing all shared words after each atomic step.")


def _renumber_drop_poster(sched, i):
    out = []
    for s in sched:
        if isinstance(s, dict) and "SP" in s:
            k = s["SP"][0]
            if k == i:
                continue
            out.append({"SP": [k - 1]} if k > i else s)
        else:
            out.append(s)
    return out


def shrink_candidates(ops):
    """smaller ops terms, most aggressive first (check.py tries the first 64 per round)"""
    progs, oracle, sched = ops["mkOps"][:3]
    tp = ops["mkOps"][3] if len(ops["mkOps"]) > 3 else 99
    n = len(sched)
    cands = []

    def add(p, o, s):
        c = {"mkOps": [p, o, s, tp]}
        if c != ops and c not in cands:
            cands.append(c)

    # 1. schedule prefixes (a disagreement at step k survives every prefix of length > k)
    for m in (n // 2, (3 * n) // 4, (7 * n) // 8, n - 4, n - 2, n - 1):
        if 0 <= m < n:
            add(progs, oracle, sched[:m])
    # 2. whole posters
    for i in range(len(progs)):
        add(progs[:i] + progs[i + 1:], oracle, _renumber_drop_poster(sched, i))
    # 3. single messages
    for i, p in enumerate(progs):
        for k in range(len(p)):
            add(progs[:i] + [p[:k] + p[k + 1:]] + progs[i + 1:], oracle, sched)
    # 4. oracle: drop everything, drop the tail, turn the first true into false
    if oracle:
        add(progs, [], sched)
        add(progs, oracle[:len(oracle) // 2], sched)
        if True in oracle:
            k = oracle.index(True)
            add(progs, oracle[:k] + [False] + oracle[k + 1:], sched)
            add(progs, oracle[:k + 1], sched)
    # 5. chunks of the schedule, then single entries (latest first)
    for parts in (2, 4, 8):
        size = max(1, n // parts)
        if size <= 1:
            break
        for a in range(0, n, size):
            add(progs, oracle, sched[:a] + sched[a + size:])
    for k in range(n - 1, -1, -1):
        add(progs, oracle, sched[:k] + sched[k + 1:])
    # 6. canonical payloads (poster*10 + position) so that equal failures shrink to equal terms
    def inner(m):
        return m["X"][0] if isinstance(m, dict) and "X" in m else m
    canon = []
    for i, p in enumerate(progs):
        q = []
        for k, m0 in enumerate(p):
            m = inner(m0)
            if isinstance(m0, dict) and "XBatch" in m0:
                q.append(m0)
            elif "PUser" in m:
                q.append({"X": [{"PUser": [i * 10 + k + 1]}]})
            elif isinstance(m["PSys"][0], dict):
                q.append({"X": [{"PSys": [{"SOther": [i * 10 + k + 1]}]}]})
            else:
                q.append({"X": [m]})
        canon.append(q)
    add(canon, oracle, sched)
    return cands

# the queue refinement theorems C09 relies on (goring ring buffer, mpsc) and their correspondence
ALSO = ["C09ring", "C09disp"]
